#!/bin/bash
# Offline setup: make hypothesis (and atheris, for thorough campaigns) importable for /venv/bin/python.
cd "$(dirname "$0")" || exit 2
mkdir -p .deps evidence replays
need=""
PYTHONPATH=".deps" /venv/bin/python -c "import hypothesis" 2>/dev/null || need="$need hypothesis"
PYTHONPATH=".deps" /venv/bin/python -c "import atheris" 2>/dev/null || need="$need atheris"
if [ -n "$need" ]; then
  /venv/bin/pip install -q --no-index --find-links /opt/veriftools/wheels --target .deps $need || echo "setup: could not install$need (checks needing it degrade)" >&2
fi
PYTHONPATH="/repo:.deps" /venv/bin/python -c "import hypothesis, pyx12; print('setup ok: hypothesis', hypothesis.__version__, 'pyx12 from', pyx12.__file__)"
