ENGINES = [
 {'name': 'vpx', 'path': 'vpx/', 'serves_properties': [], 'kind_free_text': 'Python harness: Hypothesis 6.168 strategies/stateful machines and multiprocessing enumeration driving /repo/pyx12 in fresh interpreters; independent reference models (x12ref, envmodel, mapmodel) as oracles'},
]
NOT_APPLICABLE = {}
CHECKS = {
 'C13': dict(
   text='Complete enumeration of the bounded value languages named in the statement (all strings <=6 over the digit/sign/point/blank/letter alphabet, boundary-year calendars, all YYMMDD, all HHMM/HHMMSS, hyphen placements, every code point x charset x version) compared value-by-value with an independent recogniser, plus 12k-160k Hypothesis strings for the never-raises clause. Equality of two regular-ish languages over small alphabets is decided by enumeration up to the stated length; beyond it nothing is claimed.',
   design_ref='3/C13', technique='exhaustive enumeration of finite slices + Hypothesis text, differential against an independent recogniser',
   note='Trusted: the reference recognisers in vpx/props/c13.py (datetime.date for the calendar; character sets typed from the X12 standard). Quick tier enumerates 12 of 100 YY slices and 10 of 100 HH slices (seed-rotated) plus all boundary slices; thorough enumerates all.'),
}
for pid in CHECKS:
    ENGINES[0]['serves_properties'].append(pid)
