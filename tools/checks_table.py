ENGINES = [
 {'name': 'vpx', 'path': 'vpx/', 'serves_properties': [], 'kind_free_text': 'Python harness: Hypothesis 6.168 strategies/stateful machines and multiprocessing enumeration driving /repo/pyx12 in fresh interpreters; independent reference models (x12ref, envmodel, mapmodel) as oracles'},
]
NOT_APPLICABLE = {}
CHECKS = {
 'C13': dict(
   text='Complete enumeration of the bounded value languages named in the statement (all strings <=6 over the digit/sign/point/blank/letter alphabet, boundary-year calendars, all YYMMDD, all HHMM/HHMMSS, hyphen placements, every code point x charset x version) compared value-by-value with an independent recogniser, plus 12k-160k Hypothesis strings for the never-raises clause. Equality of two regular-ish languages over small alphabets is decided by enumeration up to the stated length; beyond it nothing is claimed.',
   design_ref='3/C13', technique='exhaustive enumeration of finite slices + Hypothesis text, differential against an independent recogniser',
   note='Trusted: the reference recognisers in vpx/props/c13.py (datetime.date for the calendar; character sets typed from the X12 standard). Quick tier enumerates 12 of 100 YY slices and 10 of 100 HH slices (seed-rotated) plus all boundary slices; thorough enumerates all.'),
 'C01': dict(
   text='Generated interchange texts (delimiters, line-break layout, empty/leading-blank/trailing-empty segments, read-buffer boundary alignment, over-long segments) are read through four source kinds (StringIO, short-read stream, path, open file) and compared segment-by-segment, value-by-value with an independent tokeniser; formatted output is compared with the reference serialisation and re-read. Search, not proof: quick 440 generated texts + 28 fixtures x 4 chunkings; thorough 6400.',
   design_ref='3/C01', technique='Hypothesis structured generation with boundary-targeted padding; differential against reference tokeniser; metamorphic over chunking and source kind',
   note='Trusted: vpx/x12ref.py (40-line tokeniser from the ISA offsets). Not generated: unterminated trailing fragment, blank-only segments, CR inside values (text-mode files translate it), non-ASCII.'),
 'C04': dict(
   text='Generated envelope sequences (well-nested shapes with independent perturbations of ids, counts, control-number reuse, truncation, HL/LX numbering; and arbitrary/mutated header-trailer arrangements, optionally with adversarially chosen trailer counts) are read with X12Reader; for well-nested ones the multiset of (level,code) popped after every segment and after cleanup() must equal an independent recount, for all others no exception and at least one envelope error. Quick ~8.7k sequences, thorough ~70k.',
   design_ref='3/C04', technique='Hypothesis structured generation + mutation; differential against an independent recount model (vpx/envmodel.py)',
   note='Trusted: vpx/envmodel.py. HL-parent verdicts compared only up to the first bad parent / second root HL of a set and not for HL segments lacking HL02; sequences <= ~60 segments; delimiters fixed (C12 varies them).'),
 'C11': dict(
   text='Generated well-nested write histories (every trailer independently supplied right / supplied wrong / omitted where an enclosing trailer or Close() follows; Close() after a drawn prefix; drawn writer and source delimiters, eol, version, LX renumbering) are written with X12Writer; the text must equal, character for character, the model output (non-trailer segments unchanged, trailers regenerated from header ids and true counts), pass an independent envelope audit and be read by X12Reader without envelope errors; ISA offsets must carry the writer delimiters. Quick 4000 histories, thorough 32000.',
   design_ref='3/C11', technique='Hypothesis-generated call histories checked against a reference model of the writer; round-trip through independent tokeniser and envelope audit',
   note='Trusted: model() in vpx/props/c11.py, vpx/x12ref.py, vpx/envmodel.py. Histories are well nested by construction (property precondition); values never contain writer delimiters.'),
 'C17': dict(
   text='Paths are constructed from their parts (exhaustive product over representative ids at depth 0..2 (3 in thorough), Hypothesis over all real loop ids to depth 6, near-miss pairs for equality) and parsed: fields must equal the parts, format() the text, re-parse equal and hash-equal, ill-formed combinations must raise X12PathError; the printed path of every loop/segment/element node of every shipped map must be a fixed point. Segment.set/get_value is driven by generated operation histories against a list-of-lists model with a full snapshot comparison after every step.',
   design_ref='3/C17', technique='grammar-directed enumeration + Hypothesis; model-based operation histories on Segment',
   note='Trusted: the path grammar as worded in the property; build()/expect_error() in vpx/props/c17.py. Composite map nodes (path = segment path + "/") and loop ids that look like segment ids are outside the grammar and skipped (counted).'),
 'C20': dict(
   text='x12norm.main() is run in-process on generated files given by path under every combination of -e, -f and {stdout, -o, -i}; output is tokenised by the reference tokeniser and compared with the input segments (content), with the exact expected text layout, with a second pass (byte-for-byte idempotence) and, under -f, with the independently computed repair (true IEA01/GE01/SE01/HL01, nothing else altered) plus an envelope audit and a pyx12 re-read. Quick 2400 files, thorough 9600.',
   design_ref='3/C20', technique='Hypothesis structured generation; round-trip/idempotence metamorphic relations and a reference repair model',
   note='Trusted: vpx/x12ref.py, vpx/envmodel.py, _repair() in vpx/props/c20.py. Inputs are readable interchanges whose only defects are the count fields; in-process call of main() (argv/stdout patched), not a subprocess.'),
 'C14': dict(
   category='exploration',
   text='The domain is finite and is enumerated completely in both tiers: every syntax note of every segment node of every indexed map x every segment length 0..max+1 x every presence pattern of the mentioned positions (35k cases), plus, for segments with several notes, every pattern over the union of their positions (140k cases). is_syntax_valid must equal the X12 definition; segment validation must surface exactly one element error per violated note with code 10 (E) or 2, none for a satisfied one.',
   design_ref='3/C14', technique='exhaustive enumeration of the finite (map node, note, pattern, length) space against an independent evaluator of the X12 condition designators',
   note='Trusted: parse_note()/violated() in vpx/props/c14.py; own XML read of the maps (vpx/mapmodel.py). Present elements carry the value "X"; a map that pyx12 cannot load (841) is skipped here and reported by C16.'),
 'C16': dict(
   text='Complete enumeration of the shipped configuration: every index entry and every loop/segment/element/composite/component node of every indexed map and both control maps (129k predicate evaluations) against predicates from the statement: loads; references resolve; usage/repeat/position/syntax-note well-formedness; sibling distinguishability; index-key uniqueness and lookup; path uniqueness; re-fetch by own path through both lookups; loaded tree mirrors the XML; map-directory copy loads to an equal tree. Node-level known findings (37, data defects that need the X12 dictionary or the implementation guides) are listed one by one in known_findings.json.',
   design_ref='3/C16', technique='exhaustive enumeration of the finite configuration against independent predicates (own XML reader as reference)',
   note='Trusted: vpx/mapmodel.py (own ElementTree reader of maps.xml, map files, dataele.xml, codes.xml). The check is exhaustive over the files present in /repo/pyx12/map at run time.'),
 'C15': dict(
   text='Every element node (top-level and component) and composite node of every loadable map is validated against a catalogue of ~60-80 values spanning each constraint boundary of its own definition, under charset B and E and under every external-code exclusion configuration (~2.4M element_if.is_valid / composite_if.is_valid / segment_if.is_valid calls); the reported code set must equal the set an independent definition->codes function implies and the boolean must agree. Date/time-period elements are driven through the whole segment with each format qualifier.',
   design_ref='3/C15', technique='enumeration of (map node x boundary-value catalogue x configuration) against an independent definition-to-error-codes oracle',
   note='Trusted: expected_element()/catalogue() in vpx/props/c15.py, the C13 reference recognisers, vpx/mapmodel.py. With a control character only "6 reported, nothing outside the implied set" is required; the required-first-component-of-optional-composite corner is abstained from (counted).'),
}
for pid in CHECKS:
    ENGINES[0]['serves_properties'].append(pid)
