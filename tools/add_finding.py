#!/venv/bin/python
"""usage: tools/add_finding.py <property> fixed <commit> <bucket> <what failed>   |   tools/add_finding.py <property> known <bucket> <what fails>"""
import json, os, sys
p = os.path.join(os.path.dirname(os.path.abspath(__file__)), '..', 'known_findings.json')
k = json.load(open(p))
a = sys.argv[1:]
if a[1] == 'fixed':
    e = {'property': a[0], 'status': 'fixed', 'commit': a[2], 'bucket': a[3], 'what': 'fixed: property=%s %s %s' % (a[0], a[2], a[4])}
else:
    e = {'property': a[0], 'status': 'known', 'bucket': a[2], 'what': a[3]}
k['findings'] = [x for x in k['findings'] if not (x['property'] == e['property'] and x['bucket'] == e['bucket'] and x['status'] == e['status'] and x.get('commit') == e.get('commit'))] + [e]
json.dump(k, open(p, 'w'), indent=1)
print('recorded', e['property'], e['status'], e['bucket'])
