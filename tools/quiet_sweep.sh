#!/bin/bash
# runs every registered quick check at several seeds on the unchanged tree; prints only non-quiet ones
cd "$(dirname "$0")/.." || exit 2
SEEDS=${SEEDS:-"1 2 3 7 11"}
IDS=${IDS:-$(/venv/bin/python -c "import json;print(' '.join(c['property_id'] for c in json.load(open('MANIFEST.json'))['checks']))")}
for id in $IDS; do
  for s in $SEEDS; do
    out=$(VERIF_SEED=$s ./check $id --tier quick 2>/dev/null); rc=$?
    line=$(echo "$out" | grep "^$id tier" | cut -c1-110)
    if [ $rc -ne 0 ]; then echo "NOT-QUIET $id seed=$s rc=$rc :: $(echo "$out" | grep -E '^(bucket=|HARNESS)' | head -3 | cut -c1-300)"; else echo "ok $line"; fi
  done
done
