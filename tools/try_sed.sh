#!/bin/bash
# usage: tools/try_sed.sh <repo-relative file> <python-replace old> <new> <Cnn> : one-off sensitivity probe (always reverted)
F=$1; OLD=$2; NEW=$3; ID=$4
cd /repo || exit 2
[ -z "$(git status --porcelain --untracked-files=no)" ] || { echo "repo dirty"; exit 2; }
/venv/bin/python - "$F" "$OLD" "$NEW" <<'PY' || { git checkout -- .; exit 2; }
import sys
f,old,new=sys.argv[1:4]
s=open(f).read()
assert s.count(old)>=1, 'pattern not found'
open(f,'w').write(s.replace(old,new,1))
PY
cd /verif && ./check $ID 2>&1 | grep -v "^bucket=" | tail -3 | cut -c1-200
echo "exit=${PIPESTATUS[0]}"
git -C /repo checkout -- .
