#!/bin/bash
# Runs every seeded change (seeded/<Cnn>-<X>/patch.diff) against a set of checks in a scratch worktree of /repo
# (never in /repo itself) and writes seeded/MATRIX.json.  usage: tools/seed_matrix.sh [own|all]
cd "$(dirname "$0")/.." || exit 2
MODE=${1:-own}
W=/tmp/wtm-$$; OUT=/tmp/vpx_matrix_out-$$
git -C /repo worktree add -q --detach $W HEAD || exit 2
mkdir -p $OUT
ALL=$(/venv/bin/python -c "import json;print(' '.join(c['property_id'] for c in json.load(open('MANIFEST.json'))['checks']))")
echo "{" > seeded/MATRIX.tmp
first=1
for d in ${DIRS:-seeded/C*-*/}; do
  name=$(basename $d); own=${name%%-*}
  git -C $W checkout -q -- . ; git -C $W apply $(pwd)/$d/patch.diff 2>/dev/null || { echo "$name: patch does not apply" >&2; continue; }
  if [ "$MODE" = all ]; then ids=$ALL; else ids=$own; fi
  res=""
  for id in $ids; do
    VPX_REPO=$W VPX_OUT=$OUT ./check $id --tier quick >/dev/null 2>&1; rc=$?
    res="$res\"$id\": $rc, "
  done
  [ $first -eq 1 ] || echo "," >> seeded/MATRIX.tmp; first=0
  echo -n "\"$name\": {${res%, }}" >> seeded/MATRIX.tmp
  echo "$name: ${res}"
done
echo "}" >> seeded/MATRIX.tmp
git -C /repo worktree remove --force $W; rm -rf $OUT
mv seeded/MATRIX.tmp seeded/MATRIX-$MODE${SUFFIX:-}.json
