#!/bin/bash
# usage: tools/try_patch.sh <patch.diff> <Cnn> [tier]   -- applies the patch to /repo, runs the check, always reverts
P=$(readlink -f "$1"); ID=$2; TIER=${3:-quick}
cd /repo || exit 2
if [ -n "$(git status --porcelain --untracked-files=no)" ]; then echo "repo dirty"; exit 2; fi
git apply "$P" || { echo "patch does not apply"; exit 2; }
cd /verif && ./check $ID --tier $TIER 2>&1 | grep -v "^bucket=" | tail -${LINES_OUT:-8}
rc=${PIPESTATUS[0]}
git -C /repo checkout -- . 
echo "check exit=$rc (1 = mutant detected)"
