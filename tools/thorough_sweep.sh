#!/bin/bash
# runs every registered thorough check once on the unchanged tree (outputs redirected), prints one line per check
cd "$(dirname "$0")/.." || exit 2
IDS=${IDS:-$(/venv/bin/python -c "import json;print(' '.join(c['property_id'] for c in json.load(open('MANIFEST.json'))['checks']))")}
O=${VPX_OUT:-/tmp/vpx_thorough}
for id in $IDS; do
  out=$(VPX_OUT=$O ./check $id --tier thorough 2>/dev/null); rc=$?
  line=$(echo "$out" | grep "^$id tier" | cut -c1-130)
  if [ $rc -ne 0 ]; then echo "NOT-QUIET $id rc=$rc :: $(echo "$out" | grep -E '^(bucket=|HARNESS)' | head -3 | cut -c1-300)"; else echo "ok $line"; fi
done
