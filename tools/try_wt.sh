#!/bin/bash
# usage: tools/try_wt.sh <patch.diff> <Cnn> [tier]   -- like try_patch.sh but in a scratch worktree: /repo is never touched
P=$(readlink -f "$1"); ID=$2; TIER=${3:-quick}
cd "$(dirname "$0")/.." || exit 2
W=/tmp/wtt-$$; O=/tmp/vpx_try-$$
git -C /repo worktree add -q --detach $W HEAD || exit 2
git -C $W apply "$P" || { echo "patch does not apply"; git -C /repo worktree remove --force $W; exit 2; }
VPX_REPO=$W VPX_OUT=$O ./check $ID --tier $TIER 2>&1 | grep -v "^bucket=\|^KNOWN" | cut -c1-${COLS:-220} | tail -${LINES_OUT:-6}
rc=${PIPESTATUS[0]}
git -C /repo worktree remove --force $W; rm -rf $O
echo "check exit=$rc (1 = change detected)"
