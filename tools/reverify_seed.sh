#!/bin/bash
# usage: tools/reverify_seed.sh <Cnn-L>   -- after a re-base: patch applies, suite green with it, demo fails with / passes without, own check reports it
cd "$(dirname "$0")/.." || exit 2
N=$1; ID=${N%%-*}; W=/tmp/wtv-$N; O=/tmp/vpx_rv-$N
git -C /repo worktree add -q --detach $W HEAD || exit 2
if ! git -C $W apply $(pwd)/seeded/$N/patch.diff 2>/dev/null; then echo "$N: patch does not apply"; git -C /repo worktree remove --force $W; exit 1; fi
tests=$(cd $W && PYTHONPATH=$W PYTHONDONTWRITEBYTECODE=1 timeout 900 /venv/bin/python -m pytest -q -p no:cacheprovider pyx12/test 2>&1 | tail -1)
dm=$(cd $W && PYX12_TREE=$W PYTHONPATH=$W PYTHONDONTWRITEBYTECODE=1 timeout 300 /venv/bin/python $(pwd | sed 's#.*#/verif#')/seeded/$N/demo.py >/dev/null 2>&1; echo $?)
dc=$(cd /repo && PYX12_TREE=/repo PYTHONPATH=/repo PYTHONDONTWRITEBYTECODE=1 timeout 300 /venv/bin/python /verif/seeded/$N/demo.py >/dev/null 2>&1; echo $?)
VPX_REPO=$W VPX_OUT=$O ./check $ID --tier quick >/dev/null 2>&1; rc=$?
git -C /repo worktree remove --force $W; rm -rf $O
echo "$N: suite [$tests] demo patched rc=$dm unpatched rc=$dc own-check rc=$rc"
