#!/venv/bin/python
"""Regenerates MANIFEST.json from the table below (kept valid at all times)."""
import json, os, sys
V = os.path.dirname(os.path.dirname(os.path.abspath(__file__)))
props = [json.loads(l) for l in open(os.path.join(V, 'properties.jsonl'))]
from checks_table import CHECKS, NOT_APPLICABLE, ENGINES
checks = []
for pid, c in sorted(CHECKS.items()):
    checks.append({
        'property_id': pid,
        'quick_cmd': './check %s --tier quick' % pid,
        'thorough_cmd': './check %s --tier thorough' % pid,
        'evidence_file': 'evidence/%s.json' % pid,
        'replay_cmd_template': './check %s --replay {path}' % pid,
        'engine': c.get('engine', 'vpx'),
        'level_claimed': {'category': c.get('category', 'exploration'), 'text': c['text'], 'design_ref': c['design_ref']},
        'level_note': c['note'],
        'technique': c['technique'],
    })
na = [{'property_id': p['id'], 'reason': NOT_APPLICABLE.get(p['id'], 'check not built yet in this session; see DESIGN.md section 3 for the planned generator and oracle')}
      for p in props if p['id'] not in CHECKS]
m = {
    'version': 1,
    'setup_cmd': './setup.sh',
    'hooks': {'guard': 'AZONER_PYX12_VERIF', 'enable': 'no source hooks: checks import /repo/pyx12 from the working tree (PYTHONPATH=/repo) and observe through public entry points; ./check exports AZONER_PYX12_VERIF=1 for uniformity',
              'baseline_off_cmd': 'cd /repo && /venv/bin/python -m pytest -ra -q -p no:cacheprovider --timeout=900 --continue-on-collection-errors',
              'source_commits': [], 'add_only': True},
    'engines': ENGINES,
    'checks': checks,
    'notes': 'Property-based testing / fuzzing family. One runner (./check <id>), one module per property under vpx/props. Evidence is rewritten on every run. known_findings.json lists genuine defects (known / fixed).',
    'not_applicable': na,
}
json.dump(m, open(os.path.join(V, 'MANIFEST.json'), 'w'), indent=1)
print('MANIFEST.json: %d checks, %d not claimed' % (len(checks), len(na)))
