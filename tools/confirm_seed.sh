#!/bin/bash
# usage: tools/confirm_seed.sh <Cnn> <A|B> ["needs text"]
# Confirms a sub-agent's change independently in a fresh scratch worktree, then runs our check against it
# and files everything under /verif/seeded/<Cnn>-<letter>/ .
ID=$1; L=$2; SRC=/tmp/wt/out-$ID; W=/tmp/wtc-$ID-$L; OUT=/verif/seeded/$ID-$L
[ -f $SRC/$L.diff ] || { echo "no $SRC/$L.diff"; exit 2; }
git -C /repo worktree add -q --detach $W HEAD || exit 2
cd $W
res_apply=ok; git apply $SRC/$L.diff || res_apply=FAILED
tests=$(PYTHONPATH=$W PYTHONDONTWRITEBYTECODE=1 timeout 900 /venv/bin/python -m pytest -q -p no:cacheprovider --timeout=900 2>&1 | tail -1)
demo_mut=$(PYX12_TREE=$W PYTHONPATH=$W PYTHONDONTWRITEBYTECODE=1 timeout 300 /venv/bin/python $SRC/demo_$L.py 2>&1 | tail -1; echo "rc=${PIPESTATUS[0]}")
demo_clean=$(PYX12_TREE=/repo PYTHONPATH=/repo PYTHONDONTWRITEBYTECODE=1 timeout 300 /venv/bin/python $SRC/demo_$L.py 2>&1 | tail -1; echo "rc=${PIPESTATUS[0]}")
cd /verif
echo "apply: $res_apply | tests with patch: $tests"
echo "demo on patched tree: $demo_mut" | tr '\n' ' '; echo
echo "demo on /repo: $demo_clean" | tr '\n' ' '; echo
# our checks
CHECKS=${CHECKS:-$ID}
declare -A det
# our checks run against the scratch worktree (never against /repo); outputs are redirected
VO=/tmp/vpx_out-$ID-$L; mkdir -p $VO
for c in $CHECKS; do
  o=$(VPX_REPO=$W VPX_OUT=$VO ./check $c --tier ${TIER:-quick} 2>&1 | grep -v "^bucket=\|^KNOWN" | tail -3); rc=${PIPESTATUS[0]}
  echo "$o" | tail -2
  if echo "$o" | grep -q "^VIOLATION"; then det[$c]=detected; echo "check exit=1 (mutant detected)"; else det[$c]=MISSED; echo "check: mutant NOT detected"; fi
done
git -C /repo worktree remove --force $W; rm -rf $VO
mkdir -p $OUT; cp $SRC/$L.diff $OUT/patch.diff; cp $SRC/demo_$L.py $OUT/demo.py
/venv/bin/python - "$ID" "$L" "$tests" "$demo_mut" "$demo_clean" "$3" "$(for c in $CHECKS; do echo -n "$c=${det[$c]} "; done)" <<'PY'
import json,sys,re
ID,L,tests,dm,dc,needs,det=sys.argv[1:8]
notes=open('/tmp/wt/out-%s/notes.md'%ID).read()
meta={'property':ID,'variant':L,'origin':'independent sub-agent given only the property text and a scratch worktree',
 'needs_to_manifest':needs,
 'confirmed':{'suite_with_patch':tests,'demo_on_patched_tree':dm.replace('\n',' '),'demo_on_unchanged_repo':dc.replace('\n',' '),
              'how':'tools/confirm_seed.sh: fresh scratch worktree of /repo HEAD, git apply, full pytest suite, demo with PYX12_TREE; worktree removed'},
 'our_checks_quick':dict(x.split('=') for x in det.split()),
 'agent_notes':notes[:6000]}
json.dump(meta,open('/verif/seeded/%s-%s/meta.json'%(ID,L),'w'),indent=1)
PY
echo "filed $OUT: $(for c in $CHECKS; do echo -n "$c=${det[$c]} "; done)"
