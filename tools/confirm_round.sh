#!/bin/bash
# usage: rNconfirm.sh <Cnn> <letter>
cd /verif
ID=$1; L=$2
[ -f /tmp/wt/$ID/out/$L/patch.diff ] || { echo "$ID-$L: no patch yet"; exit 0; }
mkdir -p /tmp/wt/out-$ID
cp /tmp/wt/$ID/out/$L/patch.diff /tmp/wt/out-$ID/$L.diff; cp /tmp/wt/$ID/out/$L/demo.py /tmp/wt/out-$ID/demo_$L.py
/venv/bin/python - $ID $L <<'PY'
import json,sys
ID,L=sys.argv[1:3]
try: m=json.load(open('/tmp/wt/%s/out/%s/meta.json'%(ID,L)))
except Exception as e: m={'error':str(e)}
open('/tmp/wt/out-%s/notes.md'%ID,'w').write('## %s\n%s\n'%(L,json.dumps(m,indent=1)))
PY
needs=$(/venv/bin/python -c "import json;print(json.load(open('/tmp/wt/$ID/out/$L/meta.json')).get('needs',''))" 2>/dev/null)
tools/confirm_seed.sh $ID $L "$needs" > /tmp/rNc-$ID-$L.log 2>&1
echo "$(tail -1 /tmp/rNc-$ID-$L.log) :: $(grep -h 'apply:\|demo on' /tmp/rNc-$ID-$L.log | tr '\n' ' ' | cut -c1-220)"
