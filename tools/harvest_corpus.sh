#!/bin/bash
# For every seeded change: run its property's quick check against a scratch worktree carrying the change and keep up to
# two of the (smallest) failing cases as corpus/<Cnn>/<change>__<bucket>.json - the seconds-long replay tier.
cd "$(dirname "$0")/.." || exit 2
W=/tmp/wth-$$; OUT=/tmp/vpx_harvest-$$
git -C /repo worktree add -q --detach $W HEAD || exit 2
for d in ${@:-seeded/C*-*/}; do
  name=$(basename $d); own=${name%%-*}
  git -C $W checkout -q -- . ; git -C $W apply $(pwd)/$d/patch.diff 2>/dev/null || { echo "$name: patch does not apply"; continue; }
  rm -rf $OUT; mkdir -p $OUT
  VPX_REPO=$W VPX_OUT=$OUT ./check $own --tier quick >/dev/null 2>&1
  /venv/bin/python - "$name" "$own" "$OUT" <<'PY'
import glob, json, os, sys
name, own, out = sys.argv[1:4]
files = sorted(glob.glob(os.path.join(out, 'replays', own, '*.json')), key=os.path.getsize)
kept = 0
os.makedirs('corpus/%s' % own, exist_ok=True)
for f in files:
    if os.path.getsize(f) > 150000 or kept >= 2:
        continue
    r = json.load(open(f))
    rec = {'case': r['case'], 'note': 'fails with seeded change %s (bucket %s); must pass on the unchanged tree' % (name, r['bucket'])}
    dst = 'corpus/%s/%s__%s' % (own, name, os.path.basename(f))
    json.dump(rec, open(dst, 'w'), indent=0, default=str)
    kept += 1
print(name, 'kept', kept, 'of', len(files))
PY
done
git -C /repo worktree remove --force $W; rm -rf $OUT
