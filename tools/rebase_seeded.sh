#!/bin/bash
# re-bases seeded patches that no longer apply on /repo HEAD with a 3-way merge in a scratch worktree (same edit, new context);
# prints what could not be merged automatically
cd "$(dirname "$0")/.." || exit 2
W=/tmp/wtrb-$$
git -C /repo worktree add -q --detach $W HEAD || exit 2
for d in ${@:-seeded/C*-*/}; do
  name=$(basename $d); p=$(pwd)/$d/patch.diff
  git -C $W checkout -q -- . ; git -C $W clean -fdq
  if git -C $W apply --check $p 2>/dev/null; then continue; fi
  if git -C $W apply --3way $p >/dev/null 2>&1 && [ -z "$(git -C $W diff --name-only --diff-filter=U)" ]; then
    git -C $W diff HEAD > $p.new
    if [ -s $p.new ]; then mv $p.new $p; echo "$name: re-based (3-way)"; /venv/bin/python - $d <<'PY'
import json,sys
p=sys.argv[1]+'/meta.json'
m=json.load(open(p)); m['rebased']=(m.get('rebased','')+'; ' if m.get('rebased') else '')+'re-based onto later fix commits by 3-way merge (same edit)'; json.dump(m,open(p,'w'),indent=1)
PY
    else rm -f $p.new; echo "$name: 3-way gave an empty diff (edit already in HEAD?)"; fi
  else
    echo "$name: CONFLICT"
  fi
  git -C $W reset -q --hard HEAD
done
git -C /repo worktree remove --force $W
