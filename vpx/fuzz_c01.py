"""Coverage-guided campaign for C01 (thorough tier): atheris/libFuzzer mutates a token script that is expanded into an
interchange text behind a well-formed ISA.

bytes -> (delimiter triple, version, read-chunk sizes, token stream) -> text -> props.c01.check_case (reference tokeniser
differential over the StringIO and the short-read stream, format + re-read).  A token can expand into a long run, so that
libFuzzer's small inputs still reach the 8 KiB read-buffer boundaries.  A failed oracle aborts the process; the saved input
is decoded again by `decode()` in the parent and bucketed through check_case.
"""
import sys

PUNCT = list('~*:^|!\\<>+/#@$%&\'"=?;,._-{}[]()`') + ['\x1c', '\x1d', '\x1e', '\x1f']
DATA = [c for c in 'AB019xz.-_']
IDS = ['NM1', 'REF', 'N3', 'DTP', 'K3', 'ZZ', 'A1']      # no envelope ids: a second ISA is C07's subject
BUF = 8192


def decode(data):
    from vpx import x12ref
    b = list(data)
    pos = [0]

    def nxt(default=0):
        if pos[0] < len(b):
            pos[0] += 1
            return b[pos[0] - 1]
        return default
    picks = []
    for _ in range(4):
        c = PUNCT[nxt() % len(PUNCT)]
        while c in picks:
            c = PUNCT[(PUNCT.index(c) + 1) % len(PUNCT)]
        picks.append(c)
    term, ele, sub, rep = picks
    if nxt() % 8 == 0:
        term = '\n'
    icvn = '00501' if nxt() % 2 else '00401'
    nchunks = 1 + nxt() % 4
    chunks = []
    for _ in range(nchunks):
        v = nxt(255)
        chunks.append([1, 7, 105, 106, 107, BUF - 1, BUF, 40][v % 8] if v < 128 else v - 127)
    out = [x12ref.make_isa(ele=ele, sub=sub, term=term, icvn=icvn, rep=rep)]
    eols = ['', '\n', '\r\n', '\n\n', '\n' * 6, '\r\n' * 3] if term != '\n' else ['']
    out.append(eols[nxt() % len(eols)])
    nseg = 0
    # the grammar of the Hypothesis generator of C01 (optional leading blanks, an identifier, elements of 1..3 components,
    # line break after the terminator), driven by the bytes
    while pos[0] < len(b) and nseg < 60:
        nseg += 1
        f = nxt()
        if f % 16 == 0:
            out.append(term)                    # empty segment
            out.append(eols[nxt() % len(eols)])
            continue
        lead = ' ' * ((f >> 4) % 3 + 1) if f % 8 == 1 else ''
        body = IDS[nxt() % len(IDS)]
        for _e in range(nxt() % 9):
            comps = []
            for _c in range([1, 1, 1, 2, 3][nxt() % 5]):
                t = nxt()
                k = t % 8
                if k == 0:
                    v = ''
                elif k == 1:
                    v = DATA[(t >> 3) % len(DATA)]
                elif k == 2:
                    v = DATA[(t >> 3) % len(DATA)] + DATA[nxt() % len(DATA)]
                elif k == 3:
                    hi, lo = nxt(), nxt()       # a long run: lands what follows near a read-buffer boundary
                    v = 'p' * (((hi << 8) | lo) % (2 * BUF + 300))
                elif k == 4:
                    cur = sum(len(x) for x in out) + len(lead) + len(body) + 1 + sum(len(x) + 1 for x in comps)
                    want = x12ref.ISA_LEN + BUF * (1 + max(0, cur - x12ref.ISA_LEN) // BUF) + (nxt() % 5 - 2)
                    v = 'q' * max(0, want - cur)
                elif k == 5:
                    v = 'x\ny' if term != '\n' and ele != '\n' else 'xy'
                elif k == 6:
                    v = ' '
                else:
                    v = rep if rep not in (term, ele, sub) else 'r'
                comps.append(''.join('X' if c in (term, ele, sub) else c for c in v))
            body += ele + sub.join(comps)
        out.append(lead + body + term)
        out.append(eols[nxt() % len(eols)])
    text = ''.join(out)
    return {'text': text, 'chunks': chunks, 'kinds': ['stringio', 'chunked'], 'meta': {'classes': ['atheris'], 'icvn': icvn, 'delims': [term, ele, sub]}}


def main():
    import atheris
    with atheris.instrument_imports(include=['pyx12.rawx12file', 'pyx12.x12file', 'pyx12.segment']):
        import pyx12.rawx12file
        import pyx12.x12file
        import pyx12.segment
    from vpx.props import c01

    def one(data):
        case = decode(data)
        if case is None:
            return
        out = c01.check_case(case)
        if out.failures:
            raise RuntimeError('C01 violation: %s' % out.failures[0][0])

    atheris.Setup(sys.argv, one)
    atheris.Fuzz()


if __name__ == '__main__':
    main()
