"""CLI:  python -m vpx.run <Cnn> [--tier quick|thorough] [--replay file] [--jobs N]

exit 0  property held on everything explored (KNOWN-FINDING lines allowed)
exit 1  + 'VIOLATION property=<id> replay=<path>' for each violation bucket not in known_findings.json
exit 2  harness error (never reported as a violation)
"""
import argparse
import glob
import importlib
import json
import multiprocessing
import os
import sys
import time
import traceback

from . import core


CORPUS_SPEC = {'kind': '__corpus__'}      # the replay tier runs in a worker too: capped memory, fresh process


def _worker(args):
    modname, spec, seed, tier = args
    t0 = time.time()
    try:
        import resource      # a change under test that leaks without bound must end in MemoryError, not take the machine down
        # shard workers need ~0.12 GB; 16 x (2 GB + a 1 GB baseline of C18) stays below the machine's memory
        resource.setrlimit(resource.RLIMIT_AS, (2 * 1024 ** 3, 2 * 1024 ** 3))
    except Exception:
        pass
    core.hold_reserve()
    mod = None
    try:
        mod = importlib.import_module(modname)
        if spec == CORPUS_SPEC:
            acc = _corpus_shard(mod, modname.rsplit('.', 1)[1].upper())
        else:
            acc = mod.run_shard(spec, seed, tier)
        if not isinstance(acc, core.Acc):
            raise core.HarnessError('run_shard returned %r' % type(acc))
    except MemoryError as e:
        core.release_reserve()
        acc = core.Acc()
        bucket = getattr(mod, 'MEMORY_BUCKET', None)
        if bucket:       # the property of this check forbids unbounded growth across calls: running out of memory is a finding
            acc.fail(bucket, {'replay_shard': spec, 'seed': seed, 'tier': tier},
                     'the shard ran out of its 2 GiB address space (workers normally need ~0.12 GiB)')
        else:
            acc.harness_errors.append('shard %r: MemoryError' % (spec,))
    except BaseException as e:  # harness fault
        acc = core.Acc()
        txt = ''.join(traceback.format_exception(type(e), e, e.__traceback__))
        acc.harness_errors.append('shard %r: %s' % (spec, txt if len(txt) < 6000 else txt[:3000] + '\n[...]\n' + txt[-3000:]))
    acc.extra.setdefault('shard_wall_s', {})[json.dumps(spec, default=str)[:80]] = round(time.time() - t0, 2)
    # the result is pickled here, not by the pool, so that a worker whose address space the code under test has used up
    # can still hand over what it found
    import pickle
    try:
        return pickle.dumps(acc)
    except MemoryError:
        core.release_reserve()
        return pickle.dumps(acc)


def _corpus_shard(mod, pid):
    """Replay tier: committed cases (minimised failures of fixed defects and seeded changes)."""
    acc = core.Acc()
    n = 0
    if os.environ.get('VPX_NO_CORPUS'):      # sensitivity tooling only: what does generation find on its own?
        return acc
    for f in sorted(glob.glob(os.path.join(core.VERIF, 'corpus', pid, '*.json'))):
        with open(f) as fh:
            rec = json.load(fh)
        out = mod.check_case(rec['case'])
        acc.add(rec['case'], out)
        n += 1
    acc.extra['corpus_cases'] = n
    return acc


def main(argv=None):
    ap = argparse.ArgumentParser()
    ap.add_argument('pid')
    ap.add_argument('--tier', default=os.environ.get('VERIF_TIER') or 'quick', choices=['quick', 'thorough'])
    ap.add_argument('--replay')
    ap.add_argument('--jobs', type=int, default=int(os.environ.get('VPX_JOBS', '16')))
    ap.add_argument('--only', help='substring filter on shard specs (debugging)')
    a = ap.parse_args(argv)
    pid = a.pid.upper()
    try:
        seed = int(os.environ.get('VERIF_SEED', '1') or '1')
    except ValueError:
        seed = 1
    t0 = time.time()
    try:
        import pyx12
        if not os.path.abspath(pyx12.__file__).startswith(os.path.abspath(core.REPO) + os.sep):
            raise core.HarnessError('pyx12 imported from %s, not %s' % (pyx12.__file__, core.REPO))
        modname = 'vpx.props.%s' % pid.lower()
        mod = importlib.import_module(modname)
    except Exception as e:
        traceback.print_exc()
        print('HARNESS-ERROR property=%s %s' % (pid, e))
        return 2

    known = core.known_buckets(pid)

    if a.replay:
        try:
            import resource      # a replayed case runs in this process: same cap as a shard worker
            resource.setrlimit(resource.RLIMIT_AS, (2 * 1024 ** 3, 2 * 1024 ** 3))
        except Exception:
            pass
        with open(a.replay) as fh:
            rec = json.load(fh)
        out = mod.check_case(rec['case'])
        bad = [(b, d) for b, d in out.failures if b not in known]
        for b, d in out.failures:
            if b in known:
                print('KNOWN-FINDING: property=%s %s' % (pid, known[b]['what']))
        for b, d in bad:
            print('bucket=%s detail=%s' % (b, d))
            print('VIOLATION property=%s replay=%s' % (pid, a.replay))
        if not out.failures:
            print('replay passes: property holds on this case')
        return 1 if bad else 0

    specs = mod.shards(a.tier, seed)
    if a.only:
        specs = [s for s in specs if a.only in json.dumps(s, default=str)]
    total = core.Acc()
    tasks = [(modname, s, seed, a.tier) for s in [CORPUS_SPEC] + specs]
    if a.jobs <= 1 or len(tasks) <= 1:
        results = map(_worker, tasks)
    else:
        ctx = multiprocessing.get_context('spawn')
        pool = ctx.Pool(min(a.jobs, len(tasks)), maxtasksperchild=1)
        results = pool.imap_unordered(_worker, tasks, chunksize=1)
    import pickle
    if a.jobs <= 1 or len(tasks) <= 1:
        for blob in results:
            total.merge(pickle.loads(blob))
    else:
        # a worker that dies (killed for memory, say) leaves the pool waiting for ever: bound the wait for the next result
        limit = int(os.environ.get('VPX_SHARD_TIMEOUT', '5400' if a.tier == 'thorough' else '1500'))
        done = 0
        while done < len(tasks):
            try:
                blob = results.next(timeout=limit)
            except StopIteration:
                break
            except multiprocessing.TimeoutError:
                pool.terminate()
                print('HARNESS-ERROR property=%s no shard result for %d s (%d of %d shards done): a worker died or hangs' % (pid, limit, done, len(tasks)))
                return 2
            total.merge(pickle.loads(blob))
            done += 1
        pool.close()
        pool.join()

    if total.harness_errors:
        for h in total.harness_errors[:5]:
            print(h, file=sys.stderr)
        print('HARNESS-ERROR property=%s %d shard(s) failed' % (pid, len(total.harness_errors)))
        return 2

    # ---- classify buckets
    viol = []
    seen_known = []
    for b in sorted(total.buckets):
        if b in known:
            seen_known.append(b)
            mc = known[b].get('max_count')
            if mc is not None and total.buckets[b]['count'] > mc:
                # the listed finding covers exactly mc failing cases; more of them is a different violation
                nb = '%s#count>%d' % (b, mc)
                total.buckets[nb] = dict(total.buckets[b])
                total.buckets[nb]['detail'] = '%d failing cases where the known finding lists %d; %s' % (
                    total.buckets[b]['count'], mc, total.buckets[b]['detail'])
                viol.append(nb)
        else:
            viol.append(b)
    for b in seen_known:
        print('KNOWN-FINDING: property=%s %s [bucket %s, %d case(s)]' % (pid, known[b]['what'], b, total.buckets[b]['count']))
    # known findings that are excluded by construction are still announced
    for b, k in sorted(known.items()):
        if b not in seen_known and k.get('excluded_by_construction'):
            print('KNOWN-FINDING: property=%s %s [bucket %s, excluded by construction: %d case(s) steered away]'
                  % (pid, k['what'], b, total.excluded.get(b, 0)))

    rdir = os.path.join(core.OUTDIR, 'replays', pid)
    replay_paths = {}
    if viol:
        os.makedirs(rdir, exist_ok=True)
    shr = getattr(mod, 'shrink_case', None)
    for b in viol:
        rec = total.buckets[b]
        case, detail = rec['case'], rec['detail']
        if shr is not None and len(replay_paths) < 4:
            try:
                with core.watchdog(120 if a.tier == 'quick' else 600):
                    case2 = shr(case, b)
                if case2 is not None:
                    case = case2
            except Exception:
                pass
        path = os.path.join(rdir, core.slug(b) + '.json')
        with open(path, 'w') as fh:
            json.dump({'property': pid, 'bucket': b, 'detail': detail, 'count': rec['count'], 'seed': seed,
                       'tier': a.tier, 'case': case}, fh, indent=1, default=str)
        replay_paths[b] = os.path.relpath(path, core.OUTDIR)

    wall = time.time() - t0
    cov = {
        'evaluations': total.evaluations,
        'distinct_nontrivial': len(total.nontrivial),
        'rule': mod.RULE,
        'samples': total.samples[:6] or [{'note': 'enumeration; see classes'}],
        'classes': dict(total.classes.most_common(60)),
        'inconclusive_cases': total.inconclusive,
        'shards': len(specs),
        'known_findings_seen': seen_known,
        'excluded_by_known_findings': dict(total.excluded),
        'violation_buckets': viol,
    }
    if total.exhaustive is not None:
        cov['exhaustive'] = bool(total.exhaustive)
    for k, v in total.extra.items():
        cov.setdefault(k, v)
    ev = {
        'property_id': pid, 'tier': a.tier, 'seed': seed, 'level': getattr(mod, 'LEVEL', 'exploration'),
        'coverage': cov, 'assumptions': list(getattr(mod, 'ASSUMPTIONS', [])),
        'wall_s': round(wall, 2), 'violations': len(viol),
    }
    os.makedirs(os.path.join(core.OUTDIR, 'evidence'), exist_ok=True)
    with open(os.path.join(core.OUTDIR, 'evidence', pid + '.json'), 'w') as fh:
        json.dump(ev, fh, indent=1, default=str, sort_keys=True)
        fh.write('\n')

    print('%s tier=%s seed=%d evaluations=%d distinct_nontrivial=%d inconclusive=%d wall=%.1fs'
          % (pid, a.tier, seed, total.evaluations, len(total.nontrivial), total.inconclusive, wall))
    for b in viol[:25]:
        print('bucket=%s count=%d detail=%s' % (b, total.buckets[b]['count'], total.buckets[b]['detail'][:400]))
        print('VIOLATION property=%s replay=%s' % (pid, replay_paths[b]))
    if len(viol) > 25:
        print('... and %d more violation buckets (see evidence/%s.json and replays/%s/)' % (len(viol) - 25, pid, pid))
    if not viol and total.evaluations == 0:
        print('HARNESS-ERROR property=%s nothing was evaluated' % pid)
        return 2
    return 1 if viol else 0


if __name__ == '__main__':
    sys.exit(main())
