"""C13  Data-type recognisers accept exactly the X12 value languages.

Oracle: independent recognisers written from the property statement (datetime.date for the
calendar, explicit character sets).  Domains are enumerated (finite slices, exhaustive in the
thorough tier) and complemented by Hypothesis text for the "never raises" clause.
"""
import datetime
import itertools
import re

from .. import core

PID = 'C13'
LEVEL = 'exploration'
RULE = ('Enumerated slices: all strings of length<=6 over {0,7,-,.,blank,A} x all types; YYYYMMDD over 13 boundary years x '
        'month 00-13 x day 00-32 (DT,D8); all YYMMDD (DT,D6); all HHMM and HHMMSS, boundary HHMMSS+1..3 digits (TM); '
        '12-char date+HHMM; RD8 with 0..3 hyphens at every position; every code point 0-255 and samples above x charset B/E x '
        'version 00401/00501 (ID,AN); every valid exemplar of every admissible length of the numeric/date/time types with each of '
        '280 code points (0-255, non-ASCII digits, signs and points) substituted and inserted at every position; plus Hypothesis text over mixed alphabets x all types (never-raises and agreement). '
        'Oracle = independent recogniser from the statement. A case (type,value,charset,icvn) is non-trivial when it lies on a '
        'boundary: some pair of types disagrees on it, or the reference rejects it for a field-range/calendar/character reason '
        '(not merely length), or it is accepted; distinct by (type,charset,icvn,value).')
ASSUMPTIONS = ['X12 basic/extended character sets as listed in the X12 standard and in the statement of C13',
               'quick tier enumerates a seed-rotated subset of the YYMMDD and HHMMSS slices plus all boundary slices']

BASIC = set('ABCDEFGHIJKLMNOPQRSTUVWXYZ0123456789!"&\'()*+,-./:;?= ')
EXT = BASIC | set('abcdefghijklmnopqrstuvwxyz%~@[]_{}\\|<>#$')
EXT5 = EXT | set('^`')
DIG = set('0123456789')
TYPES = ['N', 'N0', 'N2', 'R', 'ID', 'AN', 'DT', 'D8', 'D6', 'TM', 'RD8']


def _digits(s):
    return len(s) > 0 and all(c in DIG for c in s)


def ref_time(s):
    if not _digits(s) or len(s) not in (4, 6, 7, 8):
        return False
    if int(s[0:2]) > 23 or int(s[2:4]) > 59:
        return False
    if len(s) >= 6 and int(s[4:6]) > 59:
        return False
    return True


def ref_date(s, lengths=(6, 8, 12)):
    if not _digits(s) or len(s) not in lengths:
        return False
    if len(s) == 6:
        s = ('20' if int(s[:2]) < 50 else '19') + s
    y, m, d = int(s[0:4]), int(s[4:6]), int(s[6:8])
    if y < 1800:
        return False
    try:
        datetime.date(y, m, d)
    except ValueError:
        return False
    if len(s) == 12:
        return ref_time(s[8:12])
    return True


_N = re.compile(r'-?[0-9]+\Z', re.A)
_R = re.compile(r'-?[0-9]*(\.[0-9]+)?\Z', re.A)


def ref(val, typ, charset='B', icvn='00401'):
    if typ[0] == 'N':
        return _N.match(val) is not None
    if typ == 'R':
        return _R.match(val) is not None and any(c in DIG for c in val)
    if typ in ('ID', 'AN'):
        allowed = BASIC if charset == 'B' else (EXT5 if icvn == '00501' else EXT)
        return all(c in allowed for c in val)
    if typ == 'DT':
        return ref_date(val)
    if typ == 'D8':
        return ref_date(val, (8,))
    if typ == 'D6':
        return ref_date(val, (6,))
    if typ == 'TM':
        return ref_time(val)
    if typ == 'RD8':
        p = val.split('-')
        return len(p) == 2 and ref_date(p[0], (8,)) and ref_date(p[1], (8,))
    raise core.HarnessError('type ' + typ)


def shape(v):
    out = []
    for c in v[:18]:
        if c in DIG:
            out.append('9')
        elif 'A' <= c <= 'Z':
            out.append('A')
        elif 'a' <= c <= 'z':
            out.append('a')
        elif 32 < ord(c) < 127:
            out.append(c)
        else:
            out.append('\\x%02x' % ord(c) if ord(c) < 256 else '\\u')
    col = []
    for c in out:                      # collapse runs: buckets name a root cause, not an input
        if not col or col[-1] != c:
            col.append(c)
    return ''.join(col[:8]) + ('+' if len(col) > 8 or len(v) > 18 else '')


def check_case(case):
    """case: {type, value, charset, icvn}"""
    from pyx12.validation import IsValidDataType
    out = core.Outcome()
    typ, val, cs, icvn = case['type'], case['value'], case.get('charset', 'B'), case.get('icvn', '00401')
    exp = ref(val, typ, cs, icvn)
    try:
        got = IsValidDataType(val, typ, cs, icvn)
    except Exception as e:
        out.fail(core.exc_bucket(e, typ + ':raises'), 'value %r: %s' % (val, core.exc_detail(e)))
        return out
    if got is not True and got is not False:
        out.fail('%s:non-bool' % typ, repr(got))
    elif got != exp:
        out.fail('%s:%s:%s' % (typ, 'accepts' if got else 'rejects', shape(val)),
                 'IsValidDataType(%r,%r,%r,%r) = %r, reference says %r' % (val, typ, cs, icvn, got, exp))
    out.nontrivial = True
    out.key = [typ, val, cs, icvn]
    return out


# ------------------------------------------------------------------ enumeration shards

YEARS = ['0000', '1799', '1800', '1899', '1900', '1999', '2000', '2004', '2023', '2024', '2100', '2400', '9999']


def _values(spec, seed, tier):
    """Yield (class, [types], value) for an enumeration slice."""
    k = spec['kind']
    if k == 'alpha6':
        alpha = ['0', '7', '-', '.', ' ', 'A']
        first = spec['first']
        for n in range(0, 7):
            if n == 0:
                if first == '0':
                    yield 'alpha6', TYPES, ''
                continue
            for t in itertools.product(alpha, repeat=n - 1):
                yield 'alpha6', TYPES, first + ''.join(t)
    elif k == 'ymd8':
        for y in YEARS:
            for m in range(0, 14):
                for d in range(0, 33):
                    v = '%s%02d%02d' % (y, m, d)
                    yield 'yyyymmdd', ['DT', 'D8', 'D6', 'TM'], v
                    if d in (0, 1, 28, 29, 30, 31, 32):
                        yield 'rd8', ['RD8'], v + '-' + v
                        yield 'rd8', ['RD8'], '20040101-' + v
                        yield 'rd8', ['RD8'], v + '-20040101'
    elif k == 'ymd6':
        yy = spec['yy']
        for md in range(10000):
            yield 'yymmdd', ['DT', 'D6'], '%02d%04d' % (yy, md)
    elif k == 'hhmm':
        for v in range(10000):
            s = '%04d' % v
            yield 'hhmm', ['TM'], s
            for d in ('20040229', '20230229', '19991231', '040229'):
                yield 'date+hhmm', ['DT', 'D8'], d + s
    elif k == 'hhmmss':
        hh = spec['hh']
        for v in range(10000):
            s = '%02d%04d' % (hh, v)
            yield 'hhmmss', ['TM'], s
            if v % 100 in (0, 59, 60, 99) or v // 100 in (0, 59, 60, 99):
                for ex in ('0', '9', '00', '99', '000', '999', '5', 'A', '.5', ' '):
                    yield 'hhmmss+frac', ['TM'], s + ex
    elif k == 'short':
        for n in range(0, 10):
            for c in ('0', '1', '2', '5', '9'):
                yield 'shortlong', TYPES, c * n
        for n in (9, 10, 11, 12, 13, 14, 16, 17, 18):
            yield 'shortlong', TYPES, '20040101'[:n] + '1' * max(0, n - 8)
    elif k == 'hyphen':
        base = '2004010120041231'
        d = '20040101'
        vals = set()
        for nh in range(0, 4):
            for pos in itertools.combinations(range(0, 17), nh):
                s = list(base)
                for p in reversed(pos):
                    s.insert(p, '-')
                vals.add(''.join(s))
        vals |= {d + '-' + d + '-' + d, '-' + d + '-' + d, d + '-' + d + '-', d + '--' + d, '-', '--', d + '-', '-' + d,
                 d + '-' + '20040230', '20040230-' + d, d + '-' + d[:6], d[:6] + '-' + d[:6], d + '-' + d + '1230'}
        for v in sorted(vals):
            yield 'rd8-hyphens', ['RD8', 'DT', 'D8', 'N', 'R'], v
    elif k == 'charset':
        cps = list(range(0, 256)) + [0x100, 0x17F, 0x391, 0x3C0, 0x660, 0x669, 0x6F0, 0x966, 0x2028, 0x2212, 0xFF10, 0xFF21,
                                     0xFFFD, 0x1D7CE, 0x1F600]
        for cp in cps:
            c = chr(cp)
            for v in (c, 'A' + c, c + 'Z', 'A' + c + 'B', c * 3):
                yield 'codepoint', ['ID', 'AN'], v
            for v in (c, '1' + c, c + '1', '1' + c + '2'):
                yield 'codepoint-num', ['N', 'N2', 'R', 'DT', 'D8', 'D6', 'TM', 'RD8'], v
            yield 'codepoint-num', ['DT', 'D8'], '2004010' + c
            yield 'codepoint-num', ['TM'], '123' + c
            yield 'codepoint-num', ['RD8'], '20040101-2004010' + c
    elif k == 'subst':
        # every valid exemplar of every admissible length x every position x every hostile code point, replaced and inserted:
        # a recogniser that lets one foreign character through at one position of one length shows here
        cps = list(range(0, 256)) + [0x100, 0x17F, 0x391, 0x3C0, 0x660, 0x663, 0x669, 0x6F0, 0x6F5, 0x966, 0x96B, 0x9E6, 0xE50, 0x2028, 0x2212,
                                     0xFF0D, 0xFF0E, 0xFF10, 0xFF17, 0xFF21, 0xFFFD, 0x1D7CE, 0x1D7D8, 0x1F600]
        ex = {'N': ['7', '12345', '-12', '000'], 'N0': ['42', '-5'], 'N2': ['1250', '-1'], 'R': ['12.5', '-.5', '1.0', '7', '-3', '0.000'],
              'DT': ['20040229', '040229', '200402291230'], 'D8': ['20040229', '19991231'], 'D6': ['040229', '991231'],
              'TM': ['1230', '123045', '1230455', '12304555', '0000', '235959', '2359599', '23595999'],
              'RD8': ['20040101-20040229', '18000101-99991231']}
        for typ in sorted(ex):
            for base in ex[typ]:
                for cp in cps:
                    c = chr(cp)
                    for i in range(len(base) + 1):
                        yield 'subst', [typ], base[:i] + c + base[i:]
                        if i < len(base):
                            yield 'subst', [typ], base[:i] + c + base[i + 1:]
    else:
        raise core.HarnessError('slice ' + k)


CONFIGS = [('B', '00401'), ('E', '00401'), ('B', '00501'), ('E', '00501')]


def _enum(spec, seed, tier):
    from pyx12.validation import IsValidDataType
    acc = core.Acc()
    nsample = 0
    for cls, types, val in _values(spec, seed, tier):
        for typ in types:
            cfgs = CONFIGS if typ in ('ID', 'AN') else CONFIGS[:1]
            for cs, icvn in cfgs:
                exp = ref(val, typ, cs, icvn)
                try:
                    got = IsValidDataType(val, typ, cs, icvn)
                except Exception:
                    got = 'raise'
                acc.evaluations += 1
                if got is not exp:
                    out = check_case({'type': typ, 'value': val, 'charset': cs, 'icvn': icvn})
                    for b, d in out.failures:
                        acc.fail(b, {'type': typ, 'value': val, 'charset': cs, 'icvn': icvn}, d)
                # non-trivial: accepted by the reference, or rejected although of an admissible length/alphabet
                if exp or _near(typ, val):
                    acc.nontrivial.add(core.digest([typ, val, cs, icvn]))
                    acc.classes[cls + ('/accept' if exp else '/near-reject')] += 1
                else:
                    acc.classes[cls + '/far-reject'] += 1
                if nsample < 2 and exp and acc.evaluations % 997 == 3:
                    acc.samples.append({'type': typ, 'value': val, 'charset': cs, 'icvn': icvn, 'reference': exp, 'pyx12': got})
                    nsample += 1
    acc.extra['exhaustive_slices'] = {spec['kind']: 1}
    return acc


def _near(typ, val):
    """rejected but on a boundary: right shape, wrong field/calendar/character"""
    if typ in ('DT', 'D8', 'D6'):
        return _digits(val) and len(val) in (6, 8, 12)
    if typ == 'TM':
        return _digits(val) and 1 <= len(val) <= 9
    if typ == 'RD8':
        return val.count('-') >= 1 and len(val) >= 15
    if typ in ('ID', 'AN'):
        return len(val) <= 3
    return len(val) <= 3 or val.strip('-.0123456789') == ''


def _hyp(spec, seed, tier):
    from hypothesis import strategies as st
    acc = core.Acc()
    alph = st.sampled_from(['digits', 'num', 'date', 'basic', 'ext', 'any'])

    @st.composite
    def case(draw):
        a = draw(alph)
        if a == 'digits':
            v = draw(st.text('0123456789', max_size=14))
        elif a == 'num':
            v = draw(st.text('0123456789-. +eE', max_size=10))
        elif a == 'date':
            v = draw(st.text('0123456789-', min_size=4, max_size=20))
        elif a == 'basic':
            v = draw(st.text(sorted(BASIC), max_size=12))
        elif a == 'ext':
            v = draw(st.text(sorted(EXT5) + ['\n', '\t', '\x07', '\xe9'], max_size=12))
        else:
            v = draw(st.text(max_size=12))
        typ = draw(st.sampled_from(TYPES))
        cs, icvn = draw(st.sampled_from(CONFIGS))
        return {'type': typ, 'value': v, 'charset': cs, 'icvn': icvn}

    n = spec['n']
    core.hyp_collect(case(), check_case, n, seed * 1000 + spec['shard'], acc)
    return acc


def shards(tier, seed):
    s = [{'kind': 'alpha6', 'first': c} for c in ['0', '7', '-', '.', ' ', 'A']]
    s += [{'kind': 'ymd8'}, {'kind': 'hhmm'}, {'kind': 'short'}, {'kind': 'hyphen'}, {'kind': 'charset'}, {'kind': 'subst'}]
    bound_yy = {0, 49, 50, 99, 4, 96}
    bound_hh = {0, 23, 24, 99}
    if tier == 'thorough':
        yys = range(100)
        hhs = range(100)
    else:
        yys = sorted(bound_yy | {(seed * 7 + i * 13) % 100 for i in range(12)})
        hhs = sorted(bound_hh | {(seed * 5 + i * 11) % 100 for i in range(12)})
    s += [{'kind': 'ymd6', 'yy': y} for y in yys]
    s += [{'kind': 'hhmmss', 'hh': h} for h in hhs]
    nh = 8 if tier == 'thorough' else 4
    s += [{'kind': 'hyp', 'shard': i, 'n': 20000 if tier == 'thorough' else 3000} for i in range(nh)]
    return s


def run_shard(spec, seed, tier):
    if spec['kind'] == 'hyp':
        return _hyp(spec, seed, tier)
    return _enum(spec, seed, tier)
