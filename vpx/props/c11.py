"""C11  The writer always emits balanced envelopes with correct counts.

Model: non-trailer segments unchanged and in order; every trailer regenerated from the header id and the true
count, whether supplied (right or wrong), omitted inside an enclosing trailer, or left open at Close().
"""
import io
import os

from .. import core, x12ref, envmodel

PID = 'C11'
RULE = ('Hypothesis-generated well-nested write histories: 1..3 interchanges x 0..3 groups x 0..3 sets x 0..6 body segments '
        '(simple and composite elements, CLM/LX runs); every trailer independently supplied-correct / supplied with wrong count '
        'or id / omitted; history cut after a drawn prefix and Close() called; writer delimiters drawn (incl. LF terminator, eol '
        "'' or LF), 4010/5010, check_837_lx on/off, source segments built with delimiters different from the writer's. Oracle: "
        'output tokenised by the reference tokeniser equals the model output; independent envelope audit finds no discrepancy; '
        "pyx12's reader pops no envelope error; ISA offsets 3/104/105 (82 for 00501) carry the writer's delimiters. Non-trivial = "
        '>=1 omitted or wrong trailer, or >=2 sets; distinct by digest of (ops, delimiters, prefix).')
ASSUMPTIONS = ['write sequences are well nested (a trailer is only written when its header is open)',
               'values never contain the writer delimiters; HL segments are not written (the writer does not renumber them)']

PUNCT = list('~*:^|!\\<>+/#@$%&=?;,_{}[]')


LITERAL = {'\x01c': ':', '\x01s': '*', '\x01t': '~'}      # a default delimiter character that is plain data for this source and writer


def _literal(s):
    for k, v in LITERAL.items():
        s = s.replace(k, v)
    return s


def parse_canon(s):
    """canonical '~*:' segment string -> (id, [[components]])"""
    s = s.rstrip('~')
    parts = s.split('*')
    if parts[0] == 'ISA':
        return parts[0], [[p] for p in parts[1:]]
    return parts[0], [p.split(':') for p in parts[1:]]


def model(ops, dl, icvn, lx):
    out = []
    stack = []
    n = {'gs': 0, 'st': 0, 'seg': 0, 'lx': 0}

    def close(kind):
        k, ctl = stack.pop()
        if k == 'ST':
            out.append(('SE', [[str(n['seg'] + 1)], [ctl]]))
            n['seg'] = 0
        elif k == 'GS':
            out.append(('GE', [[str(n['st'])], [ctl]]))
            n['st'] = 0
        else:
            out.append(('IEA', [[str(n['gs'])], [ctl]]))
            n['gs'] = 0

    def pop_to(kind):
        while stack and stack[-1][0] != kind:
            close(stack[-1][0])
        if stack:
            close(kind)

    for op in ops:
        sid, els = parse_canon(op)
        # a header ends what is still open at its own or an inner level (the trailers left out before it are generated there)
        ends = {'ISA': ('ST', 'GS', 'ISA'), 'GS': ('ST', 'GS'), 'ST': ('ST',)}.get(sid, ())
        while stack and stack[-1][0] in ends:
            close(stack[-1][0])
        if sid == 'ISA':
            els = [list(e) for e in els]
            els[15] = [dl['sub']]
            if els[11] == ['00501'] and dl['rep'] is not None:
                els[10] = [dl['rep']]
            out.append((sid, els))
            stack.append(('ISA', els[12][0]))
            n['gs'] = 0
        elif sid == 'GS':
            n['gs'] += 1
            n['st'] = 0
            stack.append(('GS', els[5][0]))
            out.append((sid, els))
        elif sid == 'ST':
            n['st'] += 1
            n['seg'] = 1
            stack.append(('ST', els[1][0]))
            out.append((sid, els))
        elif sid == 'SE':
            pop_to('ST')
        elif sid == 'GE':
            pop_to('GS')
        elif sid == 'IEA':
            pop_to('ISA')
        else:
            n['seg'] += 1
            if lx and sid == 'CLM':
                n['lx'] = 0
            if lx and sid == 'LX':
                n['lx'] += 1
                els = [[str(n['lx'])]] + els[1:]
            out.append((sid, els))
    pop_to('ISA')
    return out


def check_case(case):
    import pyx12.segment
    import pyx12.x12file
    if case.get('via_xml') and case['ops'][:case['prefix']]:
        return check_via_xml(case)
    out = core.Outcome()
    dl = case['delims']
    ops = case['ops'][:case['prefix']]
    lx = bool(case.get('lx'))
    src = case.get('src_delims') or ['~', '*', ':']
    meta = case.get('meta', {})
    out.classes = list(meta.get('classes', []))
    out.nontrivial = bool(set(out.classes) & {'omitted-trailer', 'wrong-trailer'}) or sum(1 for o in ops if o.startswith('ST*')) >= 2
    out.key = [ops, dl, lx, src]
    if not ops:
        return out
    buf = io.StringIO()
    dest_path = None
    if case.get('dest') == 'path':
        # the destination named by path: the writer opens (and must finish) the file itself
        import tempfile
        fd_, dest_path = tempfile.mkstemp(prefix='vpx_c11_', suffix='.x12')
        os.close(fd_)
        out.classes.append('destination-by-path')
    try:
        w = pyx12.x12file.X12Writer(dest_path or buf, seg_term=dl['term'], ele_term=dl['ele'], subele_term=dl['sub'], eol=dl['eol'],
                                    repetition_term=dl['rep'])
        w.check_837_lx = lx
        for op in ops:
            s = op.replace('~', '\x00T').replace('*', '\x00E').replace(':', '\x00S')
            s = s.replace('\x00T', src[0]).replace('\x00E', src[1]).replace('\x00S', src[2])
            s = _literal(s)
            if op.startswith('ISA*'):
                # an ISA read from a source keeps that source's component separator in ISA16
                s = s[:-2] + src[2] + src[0]
            w.Write(pyx12.segment.Segment(s, src[0], src[1], src[2]))
        w.Close()
    except Exception as e:
        out.fail(core.exc_bucket(e, 'writer'), core.exc_detail(e))
        if dest_path:
            os.unlink(dest_path)
        return out
    if dest_path:
        with open(dest_path, 'r', encoding='ascii', newline='') as fh:
            text = fh.read()
        os.unlink(dest_path)
    else:
        text = buf.getvalue()
    icvn = '00501' if '*00501*' in ops[0] else '00401'
    exp = [(sid, [[_literal(c) for c in e] for e in els]) for sid, els in model(ops, dl, icvn, lx)]
    # ISA carries the writer's delimiters
    try:
        d = x12ref.delimiters(text)
    except x12ref.NotX12:
        out.fail('not-an-interchange', text[:120])
        return out
    # a writer without a repetition separator of its own (built from the delimiters of a 00401 file) leaves ISA11 as it is
    want = {'ele': dl['ele'], 'sub': dl['sub'], 'term': dl['term'],
            'rep': (dl['rep'] if dl['rep'] is not None else parse_canon(ops[0])[1][10][0]) if icvn == '00501' else None}
    for k, v in want.items():
        if d[k] != v:
            out.fail('isa-delimiter:%s' % k, 'ISA declares %s=%r, writer was given %r' % (k, d[k], v))
            return out
    d, segs = x12ref.tokenize(text)
    got = [(s.id, s.trimmed()) for s in segs]
    expt = [(sid, x12ref.trim(els)) for sid, els in exp]
    if got != expt:
        i = 0
        while i < min(len(got), len(expt)) and got[i] == expt[i]:
            i += 1
        g = got[i] if i < len(got) else None
        e = expt[i] if i < len(expt) else None
        kind = 'trailer' if (e and e[0] in ('SE', 'GE', 'IEA')) or (g and g[0] in ('SE', 'GE', 'IEA')) else 'segment'
        out.fail('output-differs:%s:%s' % (kind, (e or g)[0]), 'segment #%d: wrote %r, model says %r' % (i, g, e))
        return out
    flat = [(s.id, [d['sub'].join(e) if s.id != 'ISA' else e[0] for e in s.elems]) for s in segs]
    aud = envmodel.audit(flat)
    if aud:
        out.fail('audit', 'independent recount of the written text: %r' % aud)
    exact = x12ref.serialize([(sid, els) for sid, els in expt], d, dl['eol'])
    if text != exact:
        i = 0
        while i < min(len(text), len(exact)) and text[i] == exact[i]:
            i += 1
        out.fail('text-layout', 'written text differs from model text at offset %d: %r vs %r' % (i, text[max(0, i - 15):i + 15], exact[max(0, i - 15):i + 15]))
    try:
        rd = pyx12.x12file.X12Reader(io.StringIO(text))
        errs = []
        for seg in rd:
            errs += [(e[0], e[1]) for e in rd.pop_errors()]
        rd.cleanup()
        errs += [(e[0], e[1]) for e in rd.pop_errors()]
        errs = [e for e in errs if e[0] in ('isa', 'gs', 'st')]
        if errs:
            out.fail('reader-envelope-error', 'pyx12 reader reports %r on the written text' % errs)
    except Exception as e:
        out.fail(core.exc_bucket(e, 'reread'), core.exc_detail(e))
    return out


def check_via_xml(case):
    """The same histories through the XML-to-X12 converter, which feeds an X12Writer: the XML of a file that stops early has no
    trailers to offer, the converter has to close what is open."""
    import tempfile
    import pyx12.xmlx12_simple
    from xml.sax.saxutils import escape
    out = core.Outcome()
    ops = case['ops'][:case['prefix']]
    lx = bool(case.get('lx'))
    meta = case.get('meta', {})
    out.classes = list(meta.get('classes', [])) + ['via-xml-converter']
    out.nontrivial = True
    out.key = ['xml', ops]
    xml = ['<?xml version="1.0"?>\n<x12simple>\n']
    for op in ops:
        sid, els = parse_canon(op)
        xml.append('<seg id="%s">' % sid)
        for i, e in enumerate(els):
            e = [_literal(c) for c in e]
            if len(e) == 1:
                if e[0] != '' or sid == 'ISA':
                    xml.append('<ele id="%s%02d">%s</ele>' % (sid, i + 1, escape(e[0])))
            else:
                xml.append('<comp id="%s%02d">' % (sid, i + 1) + ''.join('<subele id="%s%02d-%02d">%s</subele>' % (sid, i + 1, j + 1, escape(c))
                                                                            for j, c in enumerate(e) if c != '') + '</comp>')
        xml.append('</seg>\n')
    xml.append('</x12simple>\n')
    fd, tmp = tempfile.mkstemp(prefix='vpx_c11_', suffix='.xml')
    buf = io.StringIO()
    try:
        with os.fdopen(fd, 'w', encoding='utf-8') as fh:
            fh.write(''.join(xml))
        try:
            pyx12.xmlx12_simple.convert(tmp, buf)
        except Exception as e:
            out.fail(core.exc_bucket(e, 'xml-converter'), core.exc_detail(e))
            return out
    finally:
        os.unlink(tmp)
    text = buf.getvalue()
    try:
        d, segs = x12ref.tokenize(text)
    except x12ref.NotX12:
        out.fail('xml-converter:not-an-interchange', text[:120])
        return out
    icvn = '00501' if '*00501*' in ops[0] else '00401'
    dl = {'term': d['term'], 'ele': d['ele'], 'sub': d['sub'], 'rep': d.get('rep') or '^'}
    for s_ in segs:
        # the converter chooses its repetition separator once (it shows in the first 00501 header, which need not be the first)
        if s_.id == 'ISA' and len(s_.elems) > 11 and s_.elems[11] == ['00501']:
            dl['rep'] = s_.elems[10][0]
            break
    # (the converter does not renumber LX: it is the caller of the writer that asks for that)
    exp = [(sid, x12ref.trim([[_literal(c) for c in e] for e in els])) for sid, els in model(ops, dl, icvn, False)]
    got = [(s.id, s.trimmed()) for s in segs]
    if got != exp:
        i = 0
        while i < min(len(got), len(exp)) and got[i] == exp[i]:
            i += 1
        g = got[i] if i < len(got) else None
        e = exp[i] if i < len(exp) else None
        kind = 'trailer' if (e and e[0] in ('SE', 'GE', 'IEA')) or (g and g[0] in ('SE', 'GE', 'IEA')) else 'segment'
        out.fail('xml-converter:output-differs:%s:%s' % (kind, (e or g)[0]), 'segment #%d: wrote %r, model says %r' % (i, g, e))
        return out
    flat = [(s.id, [d['sub'].join(e) if s.id != 'ISA' else e[0] for e in s.elems]) for s in segs]
    aud = envmodel.audit(flat)
    if aud:
        out.fail('xml-converter:audit', 'independent recount of the converted text: %r' % aud)
    return out


def strategy(tier):
    from hypothesis import strategies as st

    @st.composite
    def gen(draw):
        classes = set()
        icvn = draw(st.sampled_from(['00401', '00501']))
        if draw(st.integers(0, 2)) == 0:
            term, ele, sub, rep = '~', '*', ':', '^'
            if draw(st.booleans()):
                sub = '\\'   # the writer's own default
        else:
            term, ele, sub, rep = draw(st.lists(st.sampled_from(PUNCT), min_size=4, max_size=4, unique=True))
            if draw(st.integers(0, 5)) == 0:
                term = '\n'
            classes.add('non-default-delimiters')
        eol = draw(st.sampled_from(['', '\n']))
        src = ['~', '*', ':'] if draw(st.integers(0, 2)) else draw(st.sampled_from([['~', '*', '>'], ['\n', '|', '^'], ['!', '+', '\\']]))
        if src[2] != sub:
            classes.add('source-sub-differs')
        lx = draw(st.booleans())
        ops = []
        n_isa = draw(st.sampled_from([1, 1, 2, 3]))
        vals = st.sampled_from(['A', 'X1', '100', 'NAME', '12.5', 'HC', ''])

        prev = {}

        def trailer(kind, count, ctl, last):
            try:
                return trailer1(kind, count, ctl, last)
            finally:
                prev[kind] = (count, ctl)

        def trailer1(kind, count, ctl, last):
            # a trailer may only be omitted when an enclosing trailer or Close() follows (well-nested history)
            p = draw(st.integers(0, 5 if last else 3))
            if not last and p == 0 and draw(st.integers(0, 2)) == 0:
                # left out in front of the next header of the same level: that header ends the envelope
                classes.add('omitted-trailer')
                classes.add('omitted-before-sibling-header')
                return []
            if p <= 2:
                return ['%s*%d*%s~' % (kind, count, ctl)]
            if p == 3 and kind in prev and draw(st.integers(0, 2)) == 0:
                # the preceding sibling's trailer written again (stale id, and a count that was true there)
                classes.add('wrong-trailer')
                classes.add('stale-trailer')
                return ['%s*%d*%s~' % ((kind,) + prev[kind])]
            if p == 3:
                classes.add('wrong-trailer')
                return ['%s*%s*%s~' % (kind, draw(st.sampled_from([str(count + 1), '0', 'X', '999'])),
                                       draw(st.sampled_from([ctl, '9', '000000000'])))]
            classes.add('omitted-trailer')
            return []

        plain = [k for k, c in sorted(LITERAL.items()) if c not in src and c not in (term, ele, sub, rep)]
        for ii in range(n_isa):
            ictl = '%09d' % (ii + 1)
            if ii > 0 and draw(st.integers(0, 2)) == 0:
                icvn = '00501' if icvn == '00401' else '00401'      # one writer, interchanges of both versions
                classes.add('mixed-versions')
            isa = x12ref.make_isa(icvn=icvn, ctl=ictl)
            # the caller's ISA11 is whatever the source had: 'U', a repetition separator, something else
            isa11 = draw(st.sampled_from([c for c in ['U', '^', 'U', '#', '='] if c not in (term, ele, sub) and c not in src]))
            isa = isa[:82] + isa11 + isa[83:]
            if isa11 == 'U' and icvn == '00501':
                classes.add('5010-isa11-U')
            ops.append(isa)
            ngs = draw(st.sampled_from([0, 1, 1, 2, 3]))
            for gi in range(ngs):
                gctl = str(gi + 1)
                ops.append('GS*HC*S*R*20040101*1230*%s*X*004010X098A1~' % gctl)
                nst = draw(st.sampled_from([0, 1, 1, 2, 3]))
                for si in range(nst):
                    sctl = '%04d' % (si + 1)
                    if plain and draw(st.integers(0, 3)) == 0:
                        # ST02 is alphanumeric: a character that is a delimiter only in the default set is data here
                        sctl += draw(st.sampled_from(plain)) + 'A'
                        classes.add('default-delimiter-in-control-number')
                    ops.append('ST*837*%s~' % sctl)
                    nb = draw(st.integers(0, 6))
                    have_clm = False
                    for b in range(nb):
                        k = draw(st.sampled_from(['REF', 'NM1', 'SV1', 'CLM', 'LX', 'DTP', 'EMPTY']))
                        if k == 'LX' and not have_clm:
                            k = 'CLM'
                        if k == 'CLM':
                            have_clm = True
                            ops.append('CLM*%s*%s***11:B:1*Y~' % (draw(vals) or 'C', draw(vals) or '1'))
                        elif k == 'LX':
                            ops.append('LX*%s~' % draw(st.sampled_from(['1', '2', '7', 'X'])))
                        elif k == 'SV1':
                            ops.append('SV1*HC:%s:%s*%s*UN*1~' % (draw(vals), draw(vals) or 'M', draw(vals) or '1'))
                        elif k == 'REF':
                            ops.append('REF*%s*%s~' % (draw(vals) or 'EA', draw(vals) or 'Z'))
                        elif k == 'EMPTY':
                            # a segment without data is still a segment (and is counted)
                            ops.append(draw(st.sampled_from(['NTE~', 'REF**~', 'K3*~'])))
                            classes.add('empty-body-segment')
                        elif k == 'DTP':
                            ops.append('DTP*472*D8*20040101~')
                        else:
                            ops.append('NM1*85*2*%s*****XX*%s~' % (draw(vals) or 'N', draw(vals) or 'I'))
                    ops += trailer('SE', nb + 2, sctl, si == nst - 1)
                ops += trailer('GE', nst, gctl, gi == ngs - 1)
            ops += trailer('IEA', ngs, ictl, ii == n_isa - 1)
        prefix = len(ops)
        if draw(st.integers(0, 2)) == 0:
            prefix = draw(st.integers(1, len(ops)))
            if prefix < len(ops):
                classes.add('closed-at-prefix')
        # keep well-nestedness of the prefix: an omitted inner trailer followed by a header at a lower level is still nested
        if draw(st.integers(0, 7)) == 0:
            rep = None
            classes.add('writer-without-repetition-separator')
        return {'ops': ops, 'prefix': prefix, 'lx': lx, 'src_delims': src, 'dest': draw(st.sampled_from(['stream', 'stream', 'stream', 'path'])),
                'via_xml': draw(st.integers(0, 6)) == 0,
                'delims': {'term': term, 'ele': ele, 'sub': sub, 'rep': rep, 'eol': eol},
                'meta': {'classes': sorted(classes)}}

    return gen()


def shards(tier, seed):
    per = 2000 if tier == 'thorough' else 1000
    return [{'shard': i, 'n': per} for i in range(16)]


def run_shard(spec, seed, tier):
    acc = core.Acc()
    core.hyp_collect(strategy(tier), check_case, spec['n'], seed * 1000 + spec['shard'], acc)
    return acc
