"""C17  Reference-designator and path addressing is consistent.

(a) grammar-directed path construction (enumerated product + Hypothesis + printed path of every map node):
    parsed fields = constructed parts, format() = text, re-parse equal and hash-equal, negatives raise X12PathError.
(b) stateful set/get histories on Segment against a list-of-lists model.
"""
import glob
import itertools
import os
import re
import xml.etree.ElementTree as ET

from .. import core

PID = 'C17'
RULE = ('(a) every combination of {absolute,relative} x loop sequences of depth 0..3 over 6 representative real loop ids x segment id '
        '{none,2-letter,3-letter,letter-digit} x qualifier {none,85,A1} x element {none,01,09,10,99} x component {none,1,2,12} '
        '(exhaustive, incl. the ill-formed combinations that must raise X12PathError), Hypothesis paths of depth 0..6 over all real '
        'non-segment-shaped loop ids of the shipped maps, and the printed path of every loop/segment/element/component node of every '
        'shipped map; (b) Hypothesis stateful machine on Segment: set/get_value by element and component designator, with and '
        'without segment id, up to position 30 (far past the end), foreign segment ids; model = list of component lists. '
        'Non-trivial path = >=2 optional parts present or an ill-formed one; non-trivial history = contains a write past the end; '
        'distinct by path text / by operation list.')
ASSUMPTIONS = ['loop ids that themselves look like a segment id or designator (e.g. AK2) cannot be told apart by the grammar and are only used in non-final position',
               'values written to a Segment do not contain its delimiters; ISA segments are not edited here (C11 covers ISA11/ISA16)']

SEG_RE = re.compile(r'^[A-Z][A-Z0-9]{1,2}$')
LAST_RE = re.compile(r'^([A-Z][A-Z0-9]{1,2})?(\[[A-Z0-9]+\])?([0-9]{2})?(-[0-9]+)?$')


def real_loop_ids():
    ids = set()
    for f in sorted(glob.glob(os.path.join(core.REPO, 'pyx12/map/*.xml'))):
        try:
            for e in ET.parse(f).iter('loop'):
                x = e.get('xid')
                if x:
                    ids.add(x)
        except ET.ParseError:
            pass
    return sorted(i for i in ids if not LAST_RE.match(i))


def build(absolute, loops, seg, qual, ele, sub):
    last = ''
    if seg:
        last += seg
    if qual:
        last += '[%s]' % qual
    if ele is not None:
        last += '%02d' % ele
    if sub is not None:
        last += '-%d' % sub
    parts = list(loops) + ([last] if last else [])
    return ('/' if absolute else '') + '/'.join(parts)


def expect_error(loops, seg, qual, ele, sub):
    if qual and not seg:
        return True
    if not seg and (ele is not None or sub is not None) and loops:
        return True
    return False


def check_path(absolute, loops, seg, qual, ele, sub, out):
    from pyx12.path import X12Path
    from pyx12.errors import X12PathError
    text = build(absolute, loops, seg, qual, ele, sub)
    bad = expect_error(loops, seg, qual, ele, sub)
    try:
        p = X12Path(text)
    except X12PathError:
        if not bad:
            out.fail('rejects-wellformed', 'X12Path(%r) raised X12PathError' % text)
        return text
    except Exception as e:
        out.fail(core.exc_bucket(e, 'parse'), '%r: %s' % (text, core.exc_detail(e)))
        return text
    if bad:
        out.fail('accepts-illformed:%s' % ('qualifier' if qual and not seg else 'element'),
                 'X12Path(%r) did not raise; loops=%r seg=%r' % (text, p.loop_list, p.seg_id))
        return text
    got = (p.relative, list(p.loop_list), p.seg_id, p.id_val, p.ele_idx, p.subele_idx)
    want = (not absolute, list(loops), seg, qual, ele, sub)
    if got != want:
        fld = ['relative', 'loops', 'seg_id', 'id_val', 'ele_idx', 'subele_idx']
        d = [fld[i] for i in range(6) if got[i] != want[i]]
        out.fail('fields:%s' % '+'.join(d), 'X12Path(%r): got %r want %r' % (text, got, want))
        return text
    f = p.format()
    if f != text:
        out.fail('format', 'X12Path(%r).format() = %r' % (text, f))
        return text
    q = X12Path(f)
    if not (q == p) or (q != p) or hash(q) != hash(p):
        out.fail('reparse-equality', '%r' % text)
    if text and not text.endswith('/') and (loops and not (seg or ele is not None)):
        t = X12Path(text + '/')
        if not (t == p):
            out.fail('trailing-slash-variant', text)
    return text


def check_case(case):
    out = core.Outcome()
    k = case['kind']
    if k == 'path':
        a = case['args']
        text = check_path(a[0], a[1], a[2], a[3], a[4], a[5], out)
        nopt = sum(1 for x in (a[2], a[3], a[4], a[5]) if x is not None) + (1 if a[1] else 0)
        out.nontrivial = nopt >= 2 or expect_error(*a[1:])
        out.classes = ['illformed' if expect_error(*a[1:]) else 'wellformed', 'depth:%d' % len(a[1])]
        out.key = text
    elif k == 'pair':
        from pyx12.path import X12Path
        t1, t2 = build(*case['a']), build(*case['b'])
        if expect_error(*case['a'][1:]) or expect_error(*case['b'][1:]):
            return out
        try:
            eq = X12Path(t1) == X12Path(t2)
        except Exception as e:
            out.fail(core.exc_bucket(e, 'eq'), core.exc_detail(e))
            return out
        same = _norm(case['a']) == _norm(case['b'])
        if eq != same:
            out.fail('equality', '%r == %r gives %r, parts equal: %r' % (t1, t2, eq, same))
        out.nontrivial = True
        out.classes = ['pair-equal' if same else 'pair-differ']
        out.key = [t1, t2]
    elif k == 'segment':
        _run_history(case, out)
    return out


def _norm(a):
    return [bool(a[0]), list(a[1]), a[2], a[3], a[4], a[5]]


# ---------------------------------------------------------------- Segment histories

def _model_fmt(elems):
    out = []
    for e in elems:
        e = list(e)
        while len(e) > 1 and e[-1] == '':
            e.pop()
        out.append(e)
    return out


def _snapshot(seg):
    n = len(seg)
    out = []
    for i in range(1, n + 1):
        k = seg.ele_len('%02d' % i)
        out.append([seg.get_value('%02d-%d' % (i, j)) for j in range(1, k + 1)])
    return out


def _run_isa_history(case, out):
    """ISA elements are never composite: a value is kept whole whatever it contains; a component designator is either refused
    (segment unchanged) or written and read back without touching any other position"""
    import pyx12.segment
    from pyx12.errors import EngineError
    vals = [v[0] if v else '' for v in case['init']][:16]
    seg = pyx12.segment.Segment('ISA' + ''.join('*' + v for v in vals) + '~', '~', '*', ':')
    model = list(vals)
    for step, op in enumerate(case['ops']):
        kind, with_id, ei, ci, val = op
        if with_id not in (None, 'ISA'):
            continue
        ref = (with_id or '') + '%02d' % ei + ('-%d' % ci if ci else '')
        before = [seg.get_value('%02d' % i) for i in range(1, len(seg) + 1)]
        try:
            if kind == 'set':
                seg.set(ref, val)
            else:
                res = seg.get_value(ref)
        except EngineError:
            if not (ci and ci > 1):
                out.fail('refused-own-designator', 'ISA step %d %s(%r)' % (step, kind, ref))
                return
            if [seg.get_value('%02d' % i) for i in range(1, len(seg) + 1)] != before:
                out.fail('changed-on-refusal', 'ISA step %d %s(%r)' % (step, kind, ref))
                return
            continue
        except Exception as e:
            out.fail(core.exc_bucket(e, kind), 'ISA step %d %s(%r): %s' % (step, kind, ref, core.exc_detail(e)))
            return
        after = [seg.get_value('%02d' % i) for i in range(1, len(seg) + 1)]
        if kind == 'set':
            if ci and ci > 1:
                # accepted: must read back, and no other element may have changed
                if seg.get_value(ref) != val:
                    out.fail('isa-component-write-lost', 'ISA step %d set(%r,%r) accepted, get_value = %r, element now %r (was %r)'
                             % (step, ref, val, seg.get_value(ref), after[ei - 1] if ei <= len(after) else None, before[ei - 1] if ei <= len(before) else None))
                    return
                model = after
                continue
            while len(model) < ei:
                model.append('')
            model[ei - 1] = val
            if after != model:
                out.fail('snapshot', 'ISA step %d set(%r,%r): %r, model %r' % (step, ref, val, after, model))
                return
        else:
            exp = model[ei - 1] if ei <= len(model) and not (ci and ci > 1) else None
            if ci and ci > 1:
                continue
            if res != exp:
                out.fail('get-value', 'ISA step %d get_value(%r) = %r, model %r' % (step, ref, res, exp))
                return
    out.classes.append('isa-segment')


def _run_history(case, out):
    import pyx12.segment
    from pyx12.errors import EngineError
    sid = case['seg_id']
    if sid == 'ISA':
        return _run_isa_history(case, out)
    init = case['init']
    seg = pyx12.segment.Segment(sid + ''.join('*' + ':'.join(e) for e in init) + '~', '~', '*', ':')
    model = [list(e) for e in init]
    past_end = False
    for step, op in enumerate(case['ops']):
        kind, with_id, ei, ci, val = op
        ref = (with_id or '') + '%02d' % ei + ('-%d' % ci if ci else '')
        foreign = bool(with_id) and with_id != sid
        before = _snapshot(seg)
        try:
            if kind == 'set':
                seg.set(ref, val)
                res = None
            else:
                res = seg.get_value(ref)
        except EngineError:
            if not foreign:
                out.fail('refused-own-designator', 'step %d %s(%r)' % (step, kind, ref))
                return
            if _snapshot(seg) != before:
                out.fail('changed-on-refusal', 'step %d %s(%r)' % (step, kind, ref))
                return
            continue
        except Exception as e:
            out.fail(core.exc_bucket(e, kind), 'step %d %s(%r): %s' % (step, kind, ref, core.exc_detail(e)))
            return
        if foreign:
            out.fail('foreign-id-accepted', 'step %d %s(%r) on segment %s did not raise EngineError' % (step, kind, ref, sid))
            return
        if kind == 'set':
            if ei > len(model):
                past_end = True
            while len(model) < ei:
                model.append([''])
            if ci:
                e = model[ei - 1]
                while len(e) < ci:
                    e.append('')
                e[ci - 1] = val
            else:
                model[ei - 1] = [val]
            # read back
            back = seg.get_value(ref)
            if back != val:
                out.fail('set-then-get', 'step %d set(%r,%r) then get_value = %r' % (step, ref, val, back))
                return
        else:
            if ei > len(model):
                exp = None
            elif ci:
                e = model[ei - 1]
                exp = e[ci - 1] if ci <= len(e) else None
            else:
                e = _model_fmt([model[ei - 1]])[0]
                exp = ':'.join(e)
            if res != exp:
                out.fail('get-value', 'step %d get_value(%r) = %r, model %r' % (step, ref, res, exp))
                return
        snap = _snapshot(seg)
        if snap != model:
            out.fail('other-position-changed' if kind == 'set' else 'get-mutates',
                     'step %d %s(%r): segment %r, model %r' % (step, kind, ref, snap, model))
            return
    # final serialisation reflects the model
    exp_txt = sid + '*' + '*'.join(':'.join(e) for e in _trim_all(model)) + '~'
    if model and any(c for e in model for c in e) and seg.format() != exp_txt:
        out.fail('format-after-history', '%r vs model %r' % (seg.format(), exp_txt))
    out.nontrivial = past_end
    out.classes = ['history:past-end' if past_end else 'history:in-range', 'ops:%d' % min(10, len(case['ops']))]
    out.key = [sid, init, case['ops']]


def _trim_all(model):
    els = _model_fmt(model)
    while els and all(c == '' for c in els[-1]):
        els.pop()
    return els


# ---------------------------------------------------------------- shards

SMALL_LOOPS = ['ISA_LOOP', '2000A', '2300', '2010AA', 'HEADER', 'ST_LOOP']
SEGS = [None, 'N3', 'NM1', 'A1B']
QUALS = [None, '85', 'A1']
ELES = [None, 1, 9, 10, 99]
SUBS = [None, 1, 2, 12]


def _enum(spec):
    acc = core.Acc()
    depth = spec['depth']
    n = 0
    for loops in itertools.product(SMALL_LOOPS, repeat=depth):
        for absolute in (True, False):
            for seg in SEGS:
                for qual in QUALS:
                    for ele in ELES:
                        for sub in SUBS:
                            if sub is not None and ele is None:
                                continue
                            case = {'kind': 'path', 'args': [absolute, list(loops), seg, qual, ele, sub]}
                            out = check_case(case)
                            acc.add(case, out)
    acc.extra['exhaustive_slices'] = {'path-product-depth-%d' % depth: 1}
    return acc


def _mapnodes(spec):
    import pyx12.map_if
    import pyx12.params
    from pyx12.path import X12Path
    acc = core.Acc()
    param = pyx12.params.params()
    for f in spec['files']:
        try:
            m = pyx12.map_if.load_map_file(f, param)
        except Exception:
            acc.classes['map-unloadable'] += 1   # reported by C16
            continue

        def walk(n):
            yield n
            if n.is_map_root() or n.is_loop():
                for k in sorted(n.pos_map):
                    for c in n.pos_map[k]:
                        for x in walk(c):
                            yield x
            else:
                for c in getattr(n, 'children', []) or []:
                    for x in walk(c):
                        yield x

        for node in walk(m):
            if node.is_map_root():
                continue
            text = node.get_path()
            if node.is_composite():
                # a composite reports '<segment path>/' - a loop-style spelling whose last part is segment-shaped,
                # outside the grammar this property quantifies over (C16 judges whether it addresses the node)
                acc.classes['composite-path-skipped'] += 1
                continue
            case = {'kind': 'nodepath', 'file': f, 'path': text}
            acc.evaluations += 1
            try:
                p = X12Path(text)
                # composite nodes report their segment's path with a trailing slash (an accepted spelling of the
                # same path; whether that identifies the composite is C16's question)
                canon = text[:-1] if len(text) > 1 and text.endswith('/') else text
                # map ids spell component indexes zero-padded (PLB03-01); the canonical print is PLB03-1, so compare
                # through the parsed form: printing must be a fixed point and parse back to an equal path
                canon2 = re.sub(r'-0+([1-9][0-9]*)$', r'-\1', canon)
                ok = p.format() == canon2 and X12Path(p.format()) == p and hash(X12Path(p.format())) == hash(p)
                # refdes of elements must survive
                if ok and node.is_element():
                    ok = p.ele_idx is not None
            except Exception as e:
                acc.fail(core.exc_bucket(e, 'nodepath'), case, core.exc_detail(e))
                continue
            if not ok:
                acc.fail('nodepath-roundtrip', case, 'X12Path(%r).format() = %r' % (text, p.format()))
            acc.nontrivial.add(core.digest(text))
            acc.classes['nodepath'] += 1
        acc.extra.setdefault('exhaustive_slices', {})['map-node-paths:' + f] = 1
    return acc


def _hyp_paths(spec, seed):
    from hypothesis import strategies as st
    acc = core.Acc()
    loops_all = real_loop_ids()
    if len(loops_all) < 50:
        raise core.HarnessError('only %d loop ids found' % len(loops_all))
    idc = 'ABCDEFGHIJKLMNOPQRSTUVWXYZ0123456789'

    @st.composite
    def parts(draw):
        depth = draw(st.integers(0, 6))
        loops = [draw(st.sampled_from(loops_all)) for _ in range(depth)]
        seg = draw(st.one_of(st.none(), st.builds(lambda a, b: a + b, st.sampled_from(idc[:26]), st.text(idc, min_size=1, max_size=2))))
        qual = draw(st.one_of(st.none(), st.none(), st.text(idc, min_size=1, max_size=4)))
        ele = draw(st.one_of(st.none(), st.integers(1, 99)))
        sub = draw(st.one_of(st.none(), st.integers(1, 99))) if ele is not None else None
        return [draw(st.booleans()), loops, seg, qual, ele, sub]

    @st.composite
    def case(draw):
        if draw(st.integers(0, 3)) == 0:
            a = draw(parts())
            b = draw(st.one_of(st.just(a), parts()))
            if draw(st.booleans()) and b is not a:
                # near miss: change exactly one field
                b = list(a)
                i = draw(st.integers(0, 5))
                alt = draw(parts())
                b[i] = alt[i]
                if b[5] is not None and b[4] is None:
                    b[5] = None
            return {'kind': 'pair', 'a': a, 'b': b}
        return {'kind': 'path', 'args': draw(parts())}

    core.hyp_collect(case(), check_case, spec['n'], seed * 1000 + spec['shard'], acc)
    return acc


def _hyp_segments(spec, seed):
    from hypothesis import strategies as st
    acc = core.Acc()
    val = st.one_of(st.sampled_from(['', 'A', 'X1', ' ', 'B C', '0', '-1.5']), st.text('ABCXYZ019 .-', max_size=6))

    @st.composite
    def case(draw):
        sid = draw(st.sampled_from(['TST', 'NM1', 'N3', 'SV1', 'N1', 'N10', 'B2', 'ISA']))
        init = [[draw(val) for _ in range(draw(st.sampled_from([1, 1, 1, 2, 3])))] for _ in range(draw(st.integers(0, 5)))]
        # the constructor keeps what it is given; make the last component of the initial text non-empty so that the
        # textual form and the list form coincide
        init = [e if e[-1] != '' or len(e) == 1 else e + ['Z'] for e in init]
        ops = []
        for _ in range(draw(st.integers(1, 12))):
            kind = draw(st.sampled_from(['set', 'set', 'get']))
            # foreign ids come from the same pool as the segments of other cases of this process: a designator that
            # worked on its own segment a moment ago must still be refused here
            # ... and ids of which the segment's own id is a textual prefix (N1 / N10, B2 / B2A), or the other way round
            with_id = draw(st.sampled_from([None, None, sid, sid, 'ZZZ', 'REF', 'TST', 'NM1', 'N3', 'SV1', 'N1', 'N10', 'B2', 'B2A',
                                            sid[:2], sid + 'A' if len(sid) == 2 else sid[:2] + '9']))
            ei = draw(st.one_of(st.integers(1, 8), st.integers(1, 30)))
            ci = draw(st.sampled_from([None, None, 1, 2, 3, 7]))
            v = draw(val) if kind == 'set' else None
            ops.append([kind, with_id, ei, ci, v])
        return {'kind': 'segment', 'seg_id': sid, 'init': init, 'ops': ops}

    core.hyp_collect(case(), check_case, spec['n'], seed * 1000 + 100 + spec['shard'], acc)
    return acc


def shards(tier, seed):
    s = [{'kind': 'enum', 'depth': d} for d in (0, 1, 2)]
    if tier == 'thorough':
        s.append({'kind': 'enum', 'depth': 3})
    files = sorted(os.path.basename(f) for f in glob.glob(os.path.join(core.REPO, 'pyx12/map/*.xml'))
                   if re.match(r'^(\d{3}|x12\.control)', os.path.basename(f)))
    if tier != 'thorough':
        k = seed % 3
        files = files[k::3]
    for i in range(0, len(files), 3):
        s.append({'kind': 'mapnodes', 'files': files[i:i + 3]})
    n = 6
    s += [{'kind': 'hyp-paths', 'shard': i, 'n': 6000 if tier == 'thorough' else 2500} for i in range(n)]
    s += [{'kind': 'hyp-segments', 'shard': i, 'n': 4000 if tier == 'thorough' else 900} for i in range(n)]
    return s


def run_shard(spec, seed, tier):
    k = spec['kind']
    if k == 'enum':
        return _enum(spec)
    if k == 'mapnodes':
        return _mapnodes(spec)
    if k == 'hyp-paths':
        return _hyp_paths(spec, seed)
    return _hyp_segments(spec, seed)
