"""C15  Element/composite validation enforces exactly what the map declares.

Every element and composite node of every shipped map x a value catalogue derived from its definition x
charset B/E x external-code exclusion configurations.  Oracle: independent "definition -> set of error codes".
"""
import re

from .. import core, mapmodel
from .c13 import ref as ref_type, BASIC, EXT, EXT5

PID = 'C15'
RULE = ('Enumeration: every element node (top-level and component) and every composite node of every loadable indexed map x a value '
        'catalogue spanning the constraint boundaries of its definition (empty; lengths min-1,min,max,max+1 in letters and digits; '
        'signed/decimal numbers; lower case, blanks, trailing blanks, punctuation of the extended sets, control and non-ASCII '
        'characters; real and impossible dates/times/ranges; inline codes and a non-member; members/non-members of the external '
        'set; regex match/non-match; a composite where a simple element is expected) x charset B/E x exclusion configuration '
        '(none, the node\'s own external set, every other set). Date/time-period elements (data element 1251, DTP03) are driven '
        'through the whole segment with each format qualifier. Oracle = codes implied by the definition (1 missing, 10 not used, '
        '4/5 length, 6 control/trailing blank/character class, 7 code list or regex, 8 date, 9 time; composites: 2 empty required, '
        '5 not-used present, 3 too many components); the reported code set must equal it (with a control character: 6 in '
        'reported, subset of implied) and the boolean must be False exactly when an error was reported. Non-trivial = distinct '
        '(definition signature, value class, expected code set); both tiers cover all maps; thorough uses every inline code of every node (quick: first 12).')
ASSUMPTIONS = ['the definition->codes function in vpx/props/c15.py is the reading of the property statement',
               'C13 reference recognisers decide "of the declared data type"']

CTRL = set(map(chr, [7, 9, 10, 11, 12, 13, 0x1c, 0x1d, 0x1e, 0x1f, 1, 2, 3, 4, 5, 6, 0x11, 0x12, 0x13, 0x14, 0x15, 0x16, 0x17]))
DATE_CODE = {'DT': '8', 'D8': '8', 'D6': '8', 'RD8': '8', 'TM': '9'}


def type_ok(v, t, cs, icvn):
    if t is None or t == 'B':
        return True
    if t[0] == 'N' or t in ('R', 'ID', 'AN', 'DT', 'D8', 'D6', 'TM', 'RD8'):
        return ref_type(v, t, cs, icvn)
    return False


def expected_element(n, v, cs, icvn, excluded, type_list=(), in_composite_usage=None):
    """-> set of codes or None (abstain)"""
    de = mapmodel.dataele()
    t, lo, hi = de[n.de]
    if v == '' or v is None:
        if n.usage == 'R':
            # also for the first component of a situational composite: an empty situational composite is never looked into
            return {'1'}
        return set()
    if n.usage == 'N':
        return {'10'}
    out = set()
    num = t == 'R' or t[0] == 'N'
    ln = len(v.replace('-', '').replace('.', '')) if num else len(v)
    if ln < lo:
        out.add('4')
    if ln > hi:
        out.add('5')
    if set(v) & CTRL:
        return ('ctrl', out | {'6'} | _rest(n, v, t, lo, cs, icvn, excluded, type_list))
    return out | _rest(n, v, t, lo, cs, icvn, excluded, type_list)


def _rest(n, v, t, lo, cs, icvn, excluded, type_list):
    out = set()
    # blanks at the end are needed only to reach the minimum length: any beyond it are needless
    if t in ('AN', 'ID') and v.endswith(' ') and len(v) > lo:
        out.add('6')
    if n.codes or n.ext is not None:
        ok = v in n.codes
        if n.ext is not None and (n.ext in excluded or v in mapmodel.codes()[n.ext]):
            ok = True
        if not ok:
            out.add('7')
    if not type_ok(v, t, cs, icvn):
        out.add(DATE_CODE.get(t, '6'))
    if type_list:
        # as a format QUALIFIER, DT means CCYYMMDDHHMM: twelve digits (the data TYPE DT also takes 6 and 8)
        # as format qualifiers DT means CCYYMMDDHHMM and TM means HHMM (the data types of these names take other lengths too)
        if not any(type_ok(v, x, cs, icvn) and (x != 'DT' or len(v) == 12) and (x != 'TM' or len(v) == 4) for x in type_list):
            out.add('9' if 'TM' in type_list else '8')
    if n.regex:
        if not re.fullmatch(n.regex, v, re.S):      # the declared pattern describes the value, not a part of it
            out.add('7')
    return out


def catalogue(n, tier):
    de = mapmodel.dataele()
    t, lo, hi = de[n.de]
    hi2 = min(hi, 300)
    vals = ['', 'A', '1', '-1', '1.5', '-.5', '.', '-', 'a', 'A ', '  ', ' A', 'A\x07', 'A\nB', '\xe9', 'A−',
            'A\x01', 'A\x06B', '\x11', 'A\x17', 'A\x1c', '2004\x050101', '12\x1530', 'A\tB', 'A\rB', '\x02' * max(1, lo), '20040101\x13',
            '20040230', '20040229', '20040101-20040102', '20040101-2004010', '2400', '1230', '123045', '1230456', '12304567',
            '040229', '990230', '200402291230', '200402292460', '20040400', '20040100', '20041301', '20040001', '20040132',
            '040400', '041301', '21000229', '20000229', '18000101', '17991231', '2400', '2360', '235960', '23595999', '235959999',
            'Z' * max(0, lo - 1), 'Z' * lo, 'Z' * hi2, 'Z' * (hi2 + 1), '9' * max(0, lo - 1), '9' * lo, '9' * hi2, '9' * (hi2 + 1),
            '-' + '9' * hi2, '9' * max(1, hi2 - 1) + '.9', '-' + '9' * (hi2 + 1), 'Z' * max(1, lo) + ' ', 'Z' * max(0, lo - 1) + ' ', 'Z' * max(0, lo - 1) + '  ', 'Z' + ' ' * min(hi2 - 1, lo + 2), ' ' * min(hi2, lo + 1),
            '<b>', '^', '`', 'a%b', '{x}', '#', '$', '~@', 'A:B', '123456789', '12345678', '1234567890']
    ncodes = len(n.codes) if tier == 'thorough' else min(len(n.codes), 12)
    vals += n.codes[:ncodes]
    if n.codes:
        vals += [n.codes[0] + ' ', n.codes[0].lower(), n.codes[-1]]
    if n.ext:
        cs = mapmodel.codes().get(n.ext, [])
        vals += cs[:3] + cs[-2:]
        vals += ['ZZ', 'QQQQQ']
    seen = set()
    out = []
    for v in vals:
        if v not in seen:
            seen.add(v)
            out.append(v)
    return out


def vclass(v):
    if v == '':
        return 'empty'
    if set(v) & CTRL:
        return 'control'
    if any(ord(c) > 126 for c in v):
        return 'non-ascii'
    if v.endswith(' '):
        return 'trailing-blank'
    if re.fullmatch(r'[0-9]+', v):
        return 'digits%d' % min(len(v), 13)
    if re.fullmatch(r'-?[0-9]*\.?[0-9]*', v):
        return 'number'
    if re.fullmatch(r'[A-Z]+', v):
        return 'upper%d' % min(len(v), 4)
    if re.fullmatch(r'[A-Z0-9]+', v):
        return 'alnum'
    return 'other'


def pyx_walk(n):
    yield n
    if n.is_map_root() or n.is_loop():
        for k in sorted(n.pos_map):
            for c in n.pos_map[k]:
                for x in pyx_walk(c):
                    yield x
    else:
        for c in getattr(n, 'children', []) or []:
            for x in pyx_walk(c):
                yield x


def run_map(fname, cs, exclude, acc, tier, ext_only=False):
    """exclude: None or a code-set id"""
    import pyx12.map_if
    import pyx12.params
    import pyx12.error_handler
    import pyx12.segment
    p = pyx12.params.params()
    p.set('charset', cs)
    if exclude:
        p.set('exclude_external_codes', exclude)
    try:
        m = pyx12.map_if.load_map_file(fname, p)
    except Exception:
        acc.classes['map-unloadable(C16)'] += 1
        return
    root = mapmodel.load_map(fname)
    de = mapmodel.dataele()
    pe = [n for n in pyx_walk(m) if n.is_element()]
    re_ = [n for n in mapmodel.walk(root) if n.kind == 'ele']
    if len(pe) != len(re_) or any(a.id != b.id for a, b in zip(pe, re_)):
        acc.fail('map-structure-differs:%s' % fname, {'file': fname}, 'element node sequence of the loaded map differs from the XML')
        return
    icvn = m.icvn
    excluded = [exclude] if exclude else []
    for a, b in zip(pe, re_):
        if b.de not in de:
            acc.classes['dangling-data-element(C16)'] += 1
            continue
        if ext_only and b.ext is None:
            continue
        seg = b.parent if b.parent.kind == 'seg' else b.parent.parent
        through_segment = b.parent.kind == 'seg' and (b.de == '1251' or (seg.id == 'DTP' and b.seq == 3))
        if through_segment:
            _through_segment(a, b, seg, cs, icvn, excluded, acc, fname, exclude, tier)
            continue
        for v in catalogue(b, tier):
            exp = expected_element(b, v, cs, icvn, excluded)
            case = {'file': fname, 'node': mapmodel.path(b), 'pos': seg.pos, 'value': v, 'charset': cs, 'exclude': exclude}
            acc.evaluations += 1
            if exp is None:
                acc.classes['abstained:first-component-of-optional-composite'] += 1
                continue
            errh = pyx12.error_handler.errh_list()
            if b.parent.kind == 'comp':
                obj = pyx12.segment.Element(v)
            else:
                obj = pyx12.segment.Composite(v, '\x1f') if ':' in v else pyx12.segment.Composite(v, ':')
            try:
                r = a.is_valid(obj, errh)
            except Exception as e:
                acc.fail(core.exc_bucket(e, 'element.is_valid'), case, core.exc_detail(e))
                continue
            got = set(e[0] for e in errh.err_ele)
            _judge(acc, case, b, v, exp, got, r, de)
    # composites
    pc = [n for n in pyx_walk(m) if n.is_composite()]
    rc = [n for n in mapmodel.walk(root) if n.kind == 'comp']
    if not ext_only and len(pc) == len(rc):
        for a, b in zip(pc, rc):
            _composite(a, b, cs, icvn, excluded, acc, fname, de)


def _judge(acc, case, b, v, exp, got, r, de):
    t = de[b.de]
    ctrl = isinstance(exp, tuple)
    if ctrl:
        exp = exp[1]
        ok = '6' in got and got <= exp
    else:
        ok = got == exp
    sigk = [t, b.usage, bool(b.codes), b.ext, bool(b.regex), vclass(v), sorted(exp)]
    acc.nontrivial.add(core.digest(sigk))
    acc.classes['codes:' + (','.join(sorted(exp)) or 'none')] += 1
    if not ok:
        missing = sorted(exp - got)
        extra = sorted(got - exp)
        what = ('missing:%s' % missing[0]) if missing else ('spurious:%s' % extra[0])
        acc.fail('%s:%s:%s' % (what, t[0], vclass(v)), case, 'value %r on %s (%s %d..%d usage %s): reported %r, definition implies %r'
                 % (v, b.id, t[0], t[1], t[2], b.usage, sorted(got), sorted(exp)))
    elif bool(r) != (len(got) == 0):
        acc.fail('boolean-disagrees:%s' % t[0], case, 'value %r on %s: returned %r with errors %r' % (v, b.id, r, sorted(got)))
    if len(acc.samples) < 3 and exp and acc.evaluations % 4099 == 0:
        acc.samples.append(dict(case, expected=sorted(exp), reported=sorted(got)))


def _through_segment(a, b, seg, cs, icvn, excluded, acc, fname, exclude, tier):
    """date/time-period elements: format chosen by a qualifier in the same segment"""
    import pyx12.error_handler
    import pyx12.segment
    de = mapmodel.dataele()
    pseg = a.parent
    quals = [c for c in seg.children if c.kind == 'ele' and c.de == '1250' and c.seq < b.seq]
    dtp = seg.id == 'DTP' and b.seq == 3
    fmts = ['D8', 'RD8', 'D6', 'DT', 'TM']
    vals = ['20040229', '20040230', '20040101-20040102', '20040101-20040132', '040229', '200402291230', '1230', '2460', 'ABC',
            '2004', '', '20040101-', '113045', '1130459', '11304599', '2359']
    for q in quals[:1] or [None]:
        qcodes = [c for c in (q.codes if q else []) if c in fmts] or ([] if q else [])
        if dtp and q is None:
            continue
        for qv in (qcodes or ['D8'])[:5]:
            for v in vals:
                els = []
                for c in seg.children:
                    if c.seq > b.seq:
                        break
                    if c is b:
                        els.append(v)
                    elif q is not None and c is q:
                        els.append(qv)
                    else:
                        els.append('')
                segobj = pyx12.segment.Segment(seg.id + ''.join('*' + x for x in els) + '~', '~', '*', ':')
                errh = pyx12.error_handler.errh_list()
                case = {'file': fname, 'node': mapmodel.path(b), 'pos': seg.pos, 'value': v, 'qualifier': qv, 'charset': cs, 'exclude': exclude}
                acc.evaluations += 1
                try:
                    pseg.is_valid(segobj, errh)
                except Exception as e:
                    acc.fail(core.exc_bucket(e, 'segment.is_valid'), case, core.exc_detail(e))
                    continue
                # type list as the map says: DTP03 -> the DTP02 value when it names a format; 1251 -> all codes of the 1250 element
                if dtp:
                    tl = [qv] if qv in fmts else []
                else:
                    tl = list(q.codes) if q is not None else []
                exp = expected_element(b, v, cs, icvn, excluded, tl)
                if exp is None:
                    continue
                got = set(e[0] for e in errh.err_ele if e[3] == b.id and 'Syntax Error' not in (e[1] or ''))
                _judge(acc, case, b, v, exp, got, not got, de)
                acc.classes['through-segment'] += 1


def _composite(a, b, cs, icvn, excluded, acc, fname, de):
    import pyx12.error_handler
    import pyx12.segment
    n = len(b.children)
    good = []
    for c in b.children:
        if c.de not in de:
            return
        good.append(_good_value(c, cs, icvn))
    if any(g is None for g in good):
        acc.classes['composite-no-good-value'] += 1
        return
    req = [g if c.usage == 'R' else '' for c, g in zip(b.children, good)]
    used = [g if c.usage != 'N' else '' for c, g in zip(b.children, good)]
    variants = {
        'absent': None,
        'empty': [''],
        'all-empty-components': [''] * n,
        'required-only': req,
        'all-used': used,
        'too-many': used + ['X'],
        'too-many-empty-tail': used + [''],
    }
    for k in range(1, n):
        # composite cut off after k components: every required component behind the cut is missing
        if any(used[:k]):
            variants['truncated-%d' % k] = used[:k]
    # a date time period format qualifier (1250) inside the composite governs the 1251 component behind it
    qi = [i for i, c in enumerate(b.children) if c.de == '1250' and c.usage != 'N']
    di = [i for i, c in enumerate(b.children) if c.de == '1251' and c.usage != 'N']
    if qi and di and qi[0] < di[0]:
        for q in [x for x in b.children[qi[0]].codes if x in ('D8', 'RD8', 'D6', 'DT', 'TM')][:4]:
            for label, val in (('well-formed', {'D8': '20040229', 'RD8': '20040101-20040229', 'D6': '040229', 'DT': '200402291230', 'TM': '1230'}[q]),
                               ('impossible', {'D8': '20201345', 'RD8': '20040101-20041345', 'D6': '041345', 'DT': '202013451230', 'TM': '2560'}[q]),
                               ('other-format', '20040101-20040229' if q != 'RD8' else '20040229')):
                comps = list(used)
                comps[qi[0]] = q
                comps[di[0]] = val
                variants['date-%s-%s' % (q, label)] = comps
    for name, comps in variants.items():
        case = {'file': fname, 'node': mapmodel.path(b), 'composite': name, 'components': comps, 'charset': cs}
        acc.evaluations += 1
        obj = None if comps is None else pyx12.segment.Composite(':'.join(comps), ':')
        errh = pyx12.error_handler.errh_list()
        try:
            r = a.is_valid(obj, errh)
        except Exception as e:
            acc.fail(core.exc_bucket(e, 'composite.is_valid'), case, core.exc_detail(e))
            continue
        got = sorted(e[0] for e in errh.err_ele)
        empty = comps is None or all(x == '' for x in comps)
        if empty:
            exp = ['2'] if b.usage == 'R' else []
        elif b.usage == 'N':
            exp = ['5']
        else:
            exp = []
            if len(comps) > n:
                exp.append('3')
            tl = ()
            for i, c in enumerate(b.children):
                v = comps[i] if i < len(comps) else ''
                if c.de == '1250':
                    tl = (v,) if v in c.codes else ()
                e = expected_element(c, v, cs, icvn, excluded, type_list=tl if c.de == '1251' else ())
                if e is None:
                    exp = None
                    break
                exp += sorted(e[1] if isinstance(e, tuple) else e)
            if exp is not None:
                exp = sorted(exp)
        if exp is None:
            acc.classes['abstained:first-component-of-optional-composite'] += 1
            continue
        acc.nontrivial.add(core.digest(['comp', b.usage, name, n, exp]))
        acc.classes['composite:' + name.split('-')[0]] += 1
        if sorted(set(got)) != sorted(set(exp)):
            acc.fail('composite:%s:%s' % (name, b.usage), case, 'composite %s usage %s variant %s %r: reported %r, definition implies %r'
                     % (b.id, b.usage, name, comps, got, exp))
        elif bool(r) != (len(got) == 0):
            acc.fail('composite-boolean-disagrees', case, 'returned %r with errors %r' % (r, got))


def _good_value(c, cs, icvn):
    de = mapmodel.dataele()
    t, lo, hi = de[c.de]
    cands = list(c.codes[:6])
    if c.ext:
        cands += [x for x in mapmodel.codes().get(c.ext, [])[:50]]
    cands += ['Z' * lo, '9' * lo, '1' * lo, '20040101'[:max(lo, 8)] if t in ('DT', 'D8') else 'A' * lo, '1230', '040101', '123456789']
    for v in cands:
        e = expected_element(c, v, cs, icvn, [])
        if e is not None and not isinstance(e, tuple) and not e and v != '':
            return v
    return None


def check_case(case):
    out = core.Outcome()
    acc = core.Acc()
    run_map(case['file'], case.get('charset', 'B'), case.get('exclude'), acc, 'thorough')
    for b, rec in acc.buckets.items():
        out.fail(b, rec['detail'])
    out.nontrivial = True
    return out


def shards(tier, seed):
    files = sorted(f for f in mapmodel.map_files())
    sets = sorted(mapmodel.codes())
    s = []
    for f in files:
        for cs in ('B', 'E'):
            s.append({'file': f, 'charset': cs, 'exclude': None})
        s.append({'file': f, 'charset': 'E', 'exclude': 'ALLSETS'})
    return s


def run_shard(spec, seed, tier):
    acc = core.Acc()
    if spec['exclude'] == 'ALLSETS':
        # external-code elements under every single-set exclusion (own set: any value passes; other sets: unchanged)
        for x in sorted(mapmodel.codes()):
            run_map(spec['file'], spec['charset'], x, acc, tier, ext_only=True)
    else:
        run_map(spec['file'], spec['charset'], None, acc, tier)
    acc.extra['exhaustive_slices'] = {'%s/%s/%s' % (spec['file'], spec['charset'], spec['exclude']): 1}
    return acc
