"""C19  HTML report shows every segment and error, with all source data escaped."""
from html.parser import HTMLParser

import re
from .. import core, docgen, observe, x12ref
from . import genfaulty

PID = 'C19'
RULE = ('Generated valid and faulty documents of every transaction map whose free-text and offending values carry markup (<zq9>, '
        '&amp;, </span>, quotes, blanks), with drawn source delimiters (including < > & as delimiters), 0..5 faults. The HTML sink is '
        'parsed with html.parser: (1) complete, balanced <html>...</html>; (2) only the report\'s own tag vocabulary occurs - marker '
        'tags never become elements; (3) exactly one span.seg per source segment, in order, whose text is "<line>:" + the segment '
        'as serialised with the source delimiters; (4) the message of every segment- and element-level error of the recorded tree '
        'appears, as text, in a span.error placed with its segment (before it for missing-segment errors, after it otherwise); a fifth of the '
        'inputs is cut off at a segment boundary and the missing-trailer messages must be listed. '
        'Non-trivial = >=1 error whose value or message contains a markup character; distinct by digest of the text.')
ASSUMPTIONS = ['html.parser (stdlib) decides what is markup', 'blanks are rendered as &nbsp; and compared as blanks',
               'only segment- and element-level errors are required to appear (the statement does not cover interchange/group/set-level ones)']

VOCAB = {'html', 'head', 'title', 'style', 'link', 'body', 'h1', 'h2', 'h3', 'p', 'div', 'span', 'br', 'a', 'meta'}
MARKERS = ['<zq9>', '&amp;', '</span>', '<b>x</b>', '"q"', "'s'", 'a & b', '<!--', '&lt;', 'x<y', 'p>q']


class Rep(HTMLParser):
    def __init__(self):
        HTMLParser.__init__(self, convert_charrefs=True)
        self.stack = []
        self.tags = []
        self.items = []      # ('seg'|'error'|'info'|'other', text)
        self.cur = None
        self.unbalanced = []
        self.closed_html = False
        self.saw_html = False

    def handle_starttag(self, tag, attrs):
        self.tags.append(tag)
        if tag == 'html':
            self.saw_html = True
        if tag in ('br', 'link', 'meta'):
            return
        cls = dict(attrs).get('class')
        if tag == 'p' and self.stack and self.stack[-1][0] == 'p':
            self.stack.pop()
        self.stack.append((tag, cls))
        if tag == 'span' and cls in ('seg', 'error', 'info') and self.cur is None:
            self.cur = [cls, [], len(self.stack)]

    def handle_startendtag(self, tag, attrs):
        self.tags.append(tag)

    def handle_endtag(self, tag):
        if tag in ('br', 'link', 'meta'):
            return
        while self.stack and self.stack[-1][0] == 'p' and tag != 'p':
            self.stack.pop()          # </p> is optional in HTML
        if not self.stack or self.stack[-1][0] != tag:
            self.unbalanced.append(tag)
            # try to recover
            while self.stack and self.stack[-1][0] != tag:
                self.stack.pop()
        if self.stack:
            if self.cur is not None and len(self.stack) == self.cur[2]:
                self.items.append((self.cur[0], ''.join(self.cur[1])))
                self.cur = None
            self.stack.pop()
        if tag == 'html':
            self.closed_html = True

    def handle_data(self, data):
        if self.cur is not None:
            self.cur[1].append(data)

    def handle_comment(self, data):
        if 'span' not in data and 'BODY' not in data and 'color' not in data:
            self.tags.append('!comment:' + data[:20])


def norm(s):
    return (s or '').replace('\xa0', ' ')


def check_case(case):
    out = _check_case(case)
    genfaulty.tag_structural(case, out)
    return out


def _check_case(case):
    out = core.Outcome()
    text = case['text']
    meta = case.get('meta', {})
    o = observe.run_validator(text, ack=False, html=True)
    out.classes = ['map:' + meta.get('file', '?'), 'faults:%d' % len(meta.get('faults', []))]
    if meta.get('placement', 'free') != 'free':
        out.classes.append('fault-placement:' + meta['placement'])
    if meta.get('ngroups', 0) > 1 and meta.get('nsets', 0) > meta.get('ngroups', 0):
        out.classes.append('several-groups-of-several-sets')
    out.key = text
    if o.exc is not None:
        out.classes.append('did-not-complete')
        return out
    html = o.html or ''
    d, segs = x12ref.tokenize(text)
    markup_in_err = any(any(c in ((e['value'] or '') + (e['msg'] or '')) for c in '<>&') for e in o.errors)
    out.nontrivial = markup_in_err
    if meta.get('markup_delims'):
        out.classes.append('markup-delimiters')
    if meta.get('truncated'):
        out.classes.append('truncated')
    p = Rep()
    try:
        p.feed(html)
        p.close()
    except Exception as e:
        out.fail('html-unparseable', core.exc_detail(e))
        return out
    # 1. complete and balanced
    if not p.saw_html or not p.closed_html:
        out.fail('incomplete-document', 'html opened=%r closed=%r' % (p.saw_html, p.closed_html))
    if p.unbalanced or p.stack:
        out.fail('unbalanced', 'unexpected end tags %r, unclosed %r' % (p.unbalanced[:4], p.stack[:4]))
    # 2. vocabulary
    foreign = [t for t in p.tags if t not in VOCAB]
    if foreign:
        out.fail('input-became-markup', 'tags not in the report vocabulary: %r' % sorted(set(foreign))[:6])
    # 3. one span.seg per source segment
    seg_items = [(k, norm(t)) for k, (kind, t) in enumerate(p.items) if kind == 'seg']
    want = []
    for i, s in enumerate(segs):
        want.append('%d: %s' % (i + 1, norm(s.raw + d['term'])))
    got = [t for _, t in seg_items]
    if got != want and not out.failures:
        j = 0
        while j < min(len(got), len(want)) and got[j] == want[j]:
            j += 1
        out.fail('segment-listing:%s' % ('count' if len(got) != len(want) else 'text'),
                 '%d span.seg for %d source segments; first difference at #%d: %r vs %r'
                 % (len(got), len(want), j, (got[j:j + 1] or [None])[0], (want[j:j + 1] or [None])[0]))
    # 4. error messages with their segment
    if not out.failures and len(got) == len(want):
        ordinal = {}
        isa = gs = st = -1
        pos = 0
        for i, s in enumerate(segs):
            if s.id == 'ISA':
                isa += 1
                gs = -1
            elif s.id == 'GS':
                gs += 1
                st = -1
            elif s.id == 'ST':
                st += 1
                pos = 0
            pos += 1
            ordinal.setdefault((isa, gs, st, pos), i)
        idx = [k for k, _ in seg_items]
        all_err_text = [norm(t) for kind, t in p.items if kind == 'error']
        # headers still open when the input ends (a header that a later header of the same level abandoned in mid-file is not one
        # of them: its missing trailer is detected, and reported, at that later header)
        open_at_end = {}
        for s in segs:
            v = [x[0] if x else '' for x in s.elems]
            if s.id == 'ISA' and len(v) > 12:
                open_at_end = {'IEA': v[12]}
            elif s.id == 'GS' and len(v) > 5:
                open_at_end.pop('SE', None)
                open_at_end['GE'] = v[5]
            elif s.id == 'ST' and len(v) > 1:
                open_at_end['SE'] = v[1]
            elif s.id in ('SE', 'GE', 'IEA'):
                open_at_end.pop(s.id, None)
                if s.id != 'SE':
                    open_at_end.pop('SE', None)
                if s.id == 'IEA':
                    open_at_end.pop('GE', None)
        for e in o.errors:
            msg = norm(e['msg'])
            if not msg:
                continue
            m_ = re.search(r'\((SE|GE|IEA)=([^)]*)\)', msg)
            if meta.get('truncated') and (e['level'], e['code']) in (('st', '2'), ('gs', '3'), ('isa', '023')) and msg.startswith('Mandatory segment') \
                    and m_ and open_at_end.get(m_.group(1)) == m_.group(2):
                # trailers missing at end of input are listed at the end of the report
                if not any(msg in w for w in all_err_text):
                    out.fail('missing-trailer-message:%s' % e['level'], '%s error code %s: message %r not in the report' % (e['level'], e['code'], msg[:120]))
                    break
            i = None
            if e['level'] in ('st-ele', 'gs-ele', 'isa-ele'):
                # an element error on a header or trailer is an element-level error of that segment: the message names the
                # element (SE01, GE02, ...), the error tree the interchange / group / set
                mm_ = re.search(r'\((ISA|IEA|GS|GE|ST|SE)\d\d', msg)
                if mm_ is None:
                    continue
                want_id = mm_.group(1)
                ci = cg = ct = -1
                for k_, s_ in enumerate(segs):
                    if s_.id == 'ISA':
                        ci += 1
                        cg = ct = -1
                    elif s_.id == 'GS':
                        cg += 1
                        ct = -1
                    elif s_.id == 'ST':
                        ct += 1
                    if s_.id == want_id and ci == e['isa'] and (e['gs'] is None or cg == e['gs']) and (e['st'] is None or ct == e['st']):
                        i = k_
                        break
                if i is None:
                    continue
            elif e['level'] in ('seg', 'ele'):
                i = ordinal.get((e['isa'], e['gs'], e['st'], e['pos']))
                if i is None:
                    continue
            if i is not None:
                lo = idx[i - 1] if i > 0 else -1
                hi = idx[i + 1] if i + 1 < len(idx) else len(p.items)
                # window: from the previous segment line to the next one
                window = [norm(t) for kind, t in p.items[lo + 1:hi] if kind == 'error']
                if any(msg in w for w in window) and e['level'] in ('st-ele', 'gs-ele', 'isa-ele'):
                    # ... and not next to the other end of the same envelope as well: an error of the header is none of the trailer
                    pair = {'ISA': 'IEA', 'IEA': 'ISA', 'GS': 'GE', 'GE': 'GS', 'ST': 'SE', 'SE': 'ST'}[want_id]
                    opens = {'ISA': 'ISA', 'IEA': 'ISA', 'GS': 'GS', 'GE': 'GS', 'ST': 'ST', 'SE': 'ST'}[want_id]
                    j = None
                    rng_ = range(i + 1, len(segs)) if want_id in ('ISA', 'GS', 'ST') else range(i - 1, -1, -1)
                    for k_ in rng_:
                        if segs[k_].id == pair:
                            j = k_
                            break
                        if segs[k_].id in (opens, want_id):
                            break           # the envelope has no other end
                    if j is not None:
                        # (element errors follow the line of their segment: what stands in front of it belongs to the segment before)
                        lo_ = idx[j]
                        hi_ = idx[j + 1] if j + 1 < len(idx) else len(p.items)
                        if any(msg in norm(t) for kind, t in p.items[lo_ + 1:hi_] if kind == 'error'):
                            out.fail('error-message-misplaced:%s' % e['level'], '%s error code %s of segment #%d (%s) is shown again with segment #%d (%s): %r'
                                     % (e['level'], e['code'], i + 1, want_id, j + 1, pair, msg[:120]))
                            break
                if not any(msg in w for w in window):
                    where = 'elsewhere' if any(msg in w for w in all_err_text) else 'nowhere'
                    out.fail('error-message-missing:%s:%s' % (e['level'], where),
                             '%s error code %s at segment #%d (%s): message %r not shown with its segment' % (e['level'], e['code'], i + 1, e['seg_id'], msg[:120]))
                    break

    return out


def run_entry(entry, n, seed, acc, tier):
    from hypothesis import strategies as st

    @st.composite
    def case(draw):
        ch = docgen.HypChooser(draw)
        mode = ch.choice(['plain', 'markup-values', 'markup-values', 'markup-delims'])
        if mode == 'markup-delims':
            dl = ch.choice([('~', '*', '<', '^'), ('~', '*', '>', '^'), ('~', '&', ':', '^'), ('<', '*', ':', '^'), ('~', '*', ':', '^')])
        else:
            dl = ch.choice([('~', '*', ':', '^'), ('|', '!', '\\', '`'), ('\n', '*', ':', '^')])
        avoid = '~*:^' + ''.join(dl)
        res = (genfaulty.build_mixed if ch.chance(.08) else lambda c_, a_, **k_: genfaulty.build(entry, c_, a_, **k_))(
                              ch, acc, max_faults=5, avoid=avoid, flavor='markup' if mode != 'plain' else 'plain', envelope=.2,
                              hostile_values=[m for m in MARKERS if not any(c in m for c in dl)] if mode == 'markup-values' else None,
                              shapes=[(1, 1, 1), (1, 1, 2), (1, 2, 1), (2, 1, 1), (1, 2, 3), (1, 2, 2), (1, 3, 2)], keep_empty_tail=.3, by_set=.3, twin_sets=.06, cluster=.1, respell_twin=.12)
        if res is None:
            return {'skip': 'genfail'}
        doc, exps = res
        meta = genfaulty.meta_of(doc, exps)
        meta['markup_delims'] = mode == 'markup-delims' and any(c in '<>&' for c in dl)
        if ch.chance(.2):
            # input cut off at a segment boundary: trailers missing at end of input
            k = ch.integer(1, min(6, len(doc.segs) - 2))
            del doc.segs[-k:]
            meta['truncated'] = k
        return {'text': doc.text(term=dl[0], ele=dl[1], sub=dl[2], rep=dl[3], eol='' if dl[0] == '\n' else ch.choice(['\n', '\n', '', '\r\n'])), 'meta': meta}

    def chk(c):
        if 'skip' in c:
            return core.Outcome(classes=['skipped:' + c['skip']])
        return check_case(c)

    core.hyp_collect(case(), chk, n, seed, acc, case_timeout=120)


def shards(tier, seed):
    return [{'entry': e, 'i': i, 'n': 250 if tier == 'thorough' else 32} for i, e in enumerate(genfaulty.entries(exclude_ack=False))]


def run_shard(spec, seed, tier):
    acc = core.Acc()
    run_entry(spec['entry'], spec['n'], seed * 1000 + spec['i'], acc, tier)
    return acc
