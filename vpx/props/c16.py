"""C16  Shipped maps, index and code tables are consistent and fully addressable.

Complete enumeration of index entries, map files and nodes against predicates taken from the statement.
"""
import os
import re
import shutil
import tempfile

from .. import core, mapmodel

PID = 'C16'
RULE = ('Complete enumeration (exhaustive): every index entry, every map file named by the index plus the two control maps, every '
        'loop/segment/element/composite/component node. Predicates: file loads through pyx12; index lookup returns the entry\'s '
        'file and keys are unique; data-element and external code-set references resolve (own XML read); usage in {R,S,N}; repeat/'
        'max_use numeric or ">1"; positions numeric; syntax notes match [PRECL](dd){2,} with positions <= element count; element '
        'seq values are 1..n without gaps; same-position sibling segments are pairwise distinguishable by id+qualifier codes; loop and '
        'segment paths unique within a map; every loop/segment re-fetched by getnodebypath(own path) and every loop/segment/element/'
        'component by getnodebypath2(own path) is the node itself; the tree loaded from a copy of the map directory equals the '
        'packaged one node for node; the path every node reports is the same when a fresh load is asked composites first or leaves '
        'first instead of top-down. Each (file, node, predicate) evaluation is a case; all are non-trivial.')
ASSUMPTIONS = ['own XML reading of the map files (vpx/mapmodel.py) is the reference for what the configuration says']

NOTE_RE = re.compile(r'^[PRECL](\d\d){2,}$')
NUM_RE = re.compile(r'^\d+$')


def pyx_walk(n):
    yield n
    if n.is_map_root() or n.is_loop():
        for k in sorted(n.pos_map):
            for c in n.pos_map[k]:
                for x in pyx_walk(c):
                    yield x
    else:
        for c in getattr(n, 'children', []) or []:
            for x in pyx_walk(c):
                yield x


def sig(n):
    """structural signature of a pyx12 node for tree comparison"""
    base = (n.base_name, n.id, getattr(n, 'usage', None), getattr(n, 'pos', None), getattr(n, 'seq', None),
            getattr(n, 'repeat', None), getattr(n, 'max_use', None), getattr(n, 'data_ele', None))
    if n.is_element():
        base += (tuple(n.valid_codes), n.external_codes, n.res)
    if n.is_segment():
        base += (tuple(tuple(s) for s in n.syntax),)
    return base


def check_static(fname, acc):
    """predicates on the XML itself (no pyx12 involved)"""
    try:
        root = mapmodel.load_map(fname)
    except Exception as e:
        acc.fail('xml-parse:%s' % fname, {'file': fname}, core.exc_detail(e))
        return None
    de = mapmodel.dataele()
    cs = mapmodel.codes()

    def ev(ok, bucket, node, detail):
        acc.evaluations += 1
        acc.nontrivial.add(core.digest([fname, mapmodel.path(node) if node is not None else '', getattr(node, 'pos', getattr(node, 'seq', 0)), bucket.split(':')[0]]))
        acc.classes[bucket.split(':')[0]] += 1
        if len(acc.samples) < 3 and acc.evaluations % 1499 == 7:
            acc.samples.append({'file': fname, 'node': mapmodel.path(node) if node is not None else None, 'predicate': bucket.split(':')[0], 'holds': bool(ok), 'detail': detail})
        if not ok:
            acc.fail(bucket, {'file': fname, 'node': mapmodel.path(node) if node is not None else None, 'predicate': bucket.split(':')[0]}, detail)

    for n in mapmodel.walk(root):
        if n.kind == 'root':
            continue
        ev(n.usage in ('R', 'S', 'N'), 'usage:%s:%s' % (fname, mapmodel.path(n)), n, 'usage=%r' % n.usage)
        if n.kind == 'loop':
            ev(n.repeat is None or n.repeat == '>1' or NUM_RE.match(n.repeat or ''), 'repeat:%s:%s' % (fname, mapmodel.path(n)), n, 'repeat=%r' % n.repeat)
            # same-position sibling segments must be distinguishable
            bypos = {}
            for c in n.children:
                if c.kind == 'seg':
                    bypos.setdefault(c.pos, []).append(c)
            for pos, sibs in bypos.items():
                for i in range(len(sibs)):
                    for j in range(i + 1, len(sibs)):
                        a, b = sibs[i], sibs[j]
                        dist = a.id != b.id or _disjoint(a, b)
                        ev(dist, 'ambiguous-siblings:%s:%s:%s@%d' % (fname, mapmodel.path(n), a.id, pos), a,
                           'segments %s and %s at position %d cannot be told apart by id and qualifier' % (a.id, b.id, pos))
            # positions are well formed: a child declared after another does not stand before it (the loader orders by position
            # and the walker only looks forward, so such a child can never follow its earlier-declared sibling in a document)
            prev = None
            for c in sorted(n.children, key=lambda x: getattr(x, 'decl', 0)):
                if prev is not None:
                    ev(c.pos >= prev.pos, 'position-order:%s:%s/%s' % (fname, mapmodel.path(n), c.id), c,
                       '%s (pos %d) is declared after %s (pos %d)' % (c.id, c.pos, prev.id, prev.pos))
                prev = c
            # repeat limits are well formed: the first segment of a loop coming again opens the next instance of the loop, so
            # the segment can be allowed more often than once only where the loop itself may repeat without limit
            if getattr(n, 'type', None) != 'wrapper' and n.children and n.children[0].kind == 'seg' and n.id not in ('ISA_LOOP', 'GS_LOOP', 'ST_LOOP'):
                f_ = n.children[0]
                ev(f_.max_use in (None, '1') or n.repeat == '>1', 'first-segment-limit:%s:%s' % (fname, mapmodel.path(n)), f_,
                   'loop %s repeats %s time(s) but its first segment %s is allowed %s uses: a second %s is counted as the loop repeating'
                   % (n.id, n.repeat, f_.id, f_.max_use, f_.id))
            paths = {}
            for c in n.children:
                if c.kind == 'loop':
                    paths.setdefault(c.id, []).append(c)
            for k, v in paths.items():
                ev(len(v) == 1, 'duplicate-loop-path:%s:%s/%s' % (fname, mapmodel.path(n), k), v[0], '%d loops with this path' % len(v))
        elif n.kind == 'seg':
            ev(n.max_use is None or n.max_use == '>1' or NUM_RE.match(n.max_use or ''), 'max_use:%s:%s' % (fname, mapmodel.path(n)), n, 'max_use=%r' % n.max_use)
            for t in n.syntax:
                ok = bool(NOTE_RE.match(t or ''))
                if ok:
                    idx = [int(t[i:i + 2]) for i in range(1, len(t), 2)]
                    ok = all(1 <= i <= len(n.children) for i in idx) and len(set(idx)) == len(idx)
                ev(ok, 'syntax-note:%s:%s:%s' % (fname, mapmodel.path(n), t), n, 'note %r on a segment with %d elements' % (t, len(n.children)))
            seqs = [c.seq for c in n.children]
            ev(seqs == list(range(1, len(seqs) + 1)), 'element-seq:%s:%s' % (fname, mapmodel.path(n)), n, 'seq values %r' % seqs)
        elif n.kind == 'comp':
            seqs = [c.seq for c in n.children]
            ev(seqs == list(range(1, len(seqs) + 1)), 'element-seq:%s:%s' % (fname, mapmodel.path(n)), n, 'seq values %r' % seqs)
        elif n.kind == 'ele':
            if n.id is not None:
                # the reference designator an element carries (it labels the element in XML and in paths) names its position
                want_ = '%s%02d' % (n.parent.id, n.seq) if n.parent.kind == 'seg' else '%s%02d-%02d' % (n.parent.parent.id, n.parent.seq, n.seq)
                ev(n.id == want_, 'designator:%s:%s' % (fname, mapmodel.path(n)), n, 'element at %s is labelled %r' % (want_, n.id))
            ev(n.de in de, 'dangling-data-element:%s:%s' % (fname, n.de), n, '%s refers to data element %r which dataele.xml does not define' % (n.id, n.de))
            if n.ext is not None:
                ev(n.ext in cs, 'dangling-code-set:%s:%s' % (fname, n.ext), n, '%s refers to external code set %r which codes.xml does not define' % (n.id, n.ext))
            if n.de in de and n.codes and n.usage != 'N':
                lo_, hi_ = de[n.de][1], de[n.de][2]
                bad = [c for c in n.codes if not (lo_ <= len(c) <= hi_) or c != c.rstrip(' ')]
                ev(not bad, 'code-does-not-fit-its-element:%s:%s' % (fname, mapmodel.path(n)), n,
                   'listed code(s) %r can never be a value of %s (length %d..%d, no trailing blank)' % (bad[:4], n.id, lo_, hi_))
            if n.regex:
                try:
                    re.compile(n.regex)
                    ok = True
                except re.error:
                    ok = False
                ev(ok, 'regex:%s:%s' % (fname, n.id), n, n.regex)
    return root


def _disjoint(a, b):
    ta, tb = mapmodel.qual_tests(a), mapmodel.qual_tests(b)
    if not ta or not tb:
        return False
    for ra, ca in ta:
        for rb, cb in tb:
            if ra == rb and not (set(ca) & set(cb)):
                return True
    return False


def check_loaded(fname, acc, map_path=None):
    import pyx12.map_if
    import pyx12.params
    param = pyx12.params.params()
    acc.evaluations += 1
    acc.classes['loads'] += 1
    acc.nontrivial.add(core.digest([fname, 'loads']))
    try:
        m = pyx12.map_if.load_map_file(fname, param, map_path)
    except Exception as e:
        acc.fail('load:%s' % fname, {'file': fname, 'predicate': 'loads'}, core.exc_detail(e))
        return None
    return m


def check_addressing(fname, m, acc):
    seen_paths = {}
    for n in pyx_walk(m):
        if n.is_map_root():
            continue
        kind = n.base_name
        try:
            p = n.get_path()
        except Exception as e:
            acc.fail('get-path-raises:%s:%s' % (fname, kind), {'file': fname, 'node': '%s under %s' % (n.id, getattr(n.parent, 'id', None)), 'kind': kind},
                     core.exc_detail(e))
            continue
        case = {'file': fname, 'node': p, 'kind': kind}
        if n.is_loop() or n.is_segment():
            acc.evaluations += 1
            acc.classes['unique-path'] += 1
            if p in seen_paths:
                acc.fail('duplicate-path:%s:%s' % (fname, p), case, 'two %s nodes report path %s' % (kind, p))
            seen_paths[p] = n
            acc.evaluations += 1
            acc.classes['refetch-1'] += 1
            acc.nontrivial.add(core.digest([fname, p, n.pos, 'r1']))
            try:
                got = m.getnodebypath(p)
                if got is not n:
                    acc.fail('refetch-getnodebypath:%s:%s' % (fname, kind), case, 'getnodebypath(%r) returned %s' % (p, _desc(got)))
            except Exception as e:
                acc.fail('refetch-getnodebypath:%s:%s' % (fname, kind), case, 'getnodebypath(%r): %s' % (p, core.exc_detail(e)))
        acc.evaluations += 1
        acc.classes['refetch-2:' + kind] += 1
        if len(acc.samples) < 5 and acc.evaluations % 2999 == 11:
            acc.samples.append({'file': fname, 'node': p, 'kind': kind, 'predicate': 'getnodebypath2(own path) is the node itself'})
        acc.nontrivial.add(core.digest([fname, p, getattr(n, 'pos', getattr(n, 'seq', 0)), 'r2', id(n) % 1000003]))
        try:
            got = m.getnodebypath2(p)
            if got is not n:
                acc.fail('refetch-getnodebypath2:%s:%s' % (fname, kind), case, 'getnodebypath2(%r) returned %s' % (p, _desc(got)))
        except Exception as e:
            acc.fail('refetch-getnodebypath2:%s:%s' % (fname, kind), case, 'getnodebypath2(%r): %s' % (p, core.exc_detail(e)))


def _desc(n):
    if n is None:
        return 'None'
    try:
        return '%s %s (path %s)' % (n.base_name, n.id, n.get_path())
    except Exception:
        return repr(n)[:80]


def check_structure(fname, m, root, acc):
    """loaded tree mirrors the XML (ids, order, element definitions)"""
    ps = [(n.base_name[:3], n.id) for n in pyx_walk(m) if not n.is_map_root() and (n.is_loop() or n.is_segment())]
    rs = [({'loop': 'loo', 'seg': 'seg'}[n.kind], n.id) for n in mapmodel.walk(root) if n.kind in ('loop', 'seg')]
    acc.evaluations += 1
    acc.classes['structure'] += 1
    if ps != rs:
        i = 0
        while i < min(len(ps), len(rs)) and ps[i] == rs[i]:
            i += 1
        acc.fail('loaded-tree-differs:%s' % fname, {'file': fname}, 'node #%d: loaded %r, XML %r' % (i, ps[i:i + 1], rs[i:i + 1]))
        return
    pe = [n for n in pyx_walk(m) if n.is_element()]
    re_ = [n for n in mapmodel.walk(root) if n.kind == 'ele']
    if len(pe) != len(re_):
        acc.fail('loaded-elements-differ:%s' % fname, {'file': fname}, '%d vs %d element nodes' % (len(pe), len(re_)))
        return
    de = mapmodel.dataele()
    for a, b in zip(pe, re_):
        acc.evaluations += 1
        acc.classes['element-definition'] += 1
        exp = (b.id, b.usage, b.seq, b.de, b.codes, b.ext)
        got = (a.id, a.usage, a.seq, a.data_ele, list(a.valid_codes), a.external_codes)
        if got != exp:
            acc.fail('element-definition-differs:%s' % fname, {'file': fname, 'node': mapmodel.path(b)}, 'loaded %r, XML %r' % (got[:4], exp[:4]))
            continue
        if b.de in de:
            try:
                t = (a.data_type, a.min_len, a.max_len)
            except Exception as e:
                acc.fail('data-element-lookup:%s:%s' % (fname, b.de), {'file': fname, 'node': mapmodel.path(b)}, core.exc_detail(e))
                continue
            if t != de[b.de]:
                acc.fail('data-element-lookup:%s:%s' % (fname, b.de), {'file': fname, 'node': mapmodel.path(b)}, 'pyx12 %r, dataele.xml %r' % (t, de[b.de]))


def check_index(acc):
    import pyx12.map_index
    idx = mapmodel.index()
    mi = pyx12.map_index.map_index()
    seen = {}
    for e in idx:
        key = (e['icvn'], e['vriic'], e['fic'], e['tspc'])
        acc.evaluations += 1
        acc.classes['index-key'] += 1
        acc.nontrivial.add(core.digest(['idx', list(key)]))
        if key in seen and seen[key] != e['file']:
            acc.fail('index-key-ambiguous:%s' % '/'.join(str(k) for k in key), {'key': key}, '%s and %s' % (seen[key], e['file']))
        seen[key] = e['file']
        if not os.path.exists(os.path.join(mapmodel.mapdir(), e['file'] or '')):
            acc.fail('index-file-missing:%s' % e['file'], {'key': key}, 'index names a file that does not exist')
        got = mi.get_filename(e['icvn'], e['vriic'], e['fic'], e['tspc'])
        if got != e['file']:
            # an entry with a purpose code shadowed by an earlier entry without one, etc.
            acc.fail('index-lookup:%s' % '/'.join(str(k) for k in key), {'key': key}, 'get_filename -> %r, entry says %r' % (got, e['file']))
    # entries that differ only by tspc must both be reachable, and the tspc-less lookup must be one of them
    return idx


def check_case(case):
    out = core.Outcome()
    acc = core.Acc()
    f = case.get('file')
    if f:
        run_file(f, acc, copy_dir=None)
        for b, rec in acc.buckets.items():
            if rec['case'].get('node') == case.get('node') or True:
                out.fail(b, rec['detail'])
    out.nontrivial = True
    return out


def run_file(fname, acc, copy_dir):
    root = check_static(fname, acc)
    m = check_loaded(fname, acc)
    if m is None or root is None:
        return
    check_structure(fname, m, root, acc)
    check_addressing(fname, m, acc)
    if copy_dir:
        m2 = check_loaded(fname, acc, copy_dir)
        if m2 is not None:
            a = [sig(n) for n in pyx_walk(m) if not n.is_map_root()]
            b = [sig(n) for n in pyx_walk(m2) if not n.is_map_root()]
            acc.evaluations += len(a)
            acc.classes['copy-dir-node'] += len(a)
            if a != b:
                i = 0
                while i < min(len(a), len(b)) and a[i] == b[i]:
                    i += 1
                acc.fail('map-dir-copy-differs:%s' % fname, {'file': fname}, 'node #%d: %r vs %r' % (i, a[i:i + 1], b[i:i + 1]))
            else:
                check_path_order(fname, m, m2, acc, 'composites-first')
    for order in ('leaves-first',) + (() if copy_dir else ('composites-first',)):
        m3 = check_loaded(fname, acc)
        if m3 is not None:
            check_path_order(fname, m, m3, acc, order)


def check_path_order(fname, m, cold, acc, order):
    """the path a node reports for itself does not depend on which nodes were asked before: `m` has been walked top-down,
    `cold` is a fresh load of the same file whose nodes are asked in another order"""
    warm_nodes = [n for n in pyx_walk(m) if not n.is_map_root()]
    cold_nodes = [n for n in pyx_walk(cold) if not n.is_map_root()]
    if len(warm_nodes) != len(cold_nodes):
        return
    idx = list(range(len(cold_nodes)))
    if order == 'composites-first':
        idx.sort(key=lambda i: (0 if cold_nodes[i].base_name == 'composite' else 1 if cold_nodes[i].is_element() else 2, i))
    else:
        idx.reverse()
    for i in idx:
        acc.evaluations += 1
        acc.classes['path-order:' + order] += 1
        n = cold_nodes[i]
        kind = n.base_name
        try:
            want = warm_nodes[i].get_path()
        except Exception:
            continue            # reported by check_addressing
        try:
            got = n.get_path()
        except Exception as e:
            acc.fail('path-order:%s:%s' % (kind, order), {'file': fname, 'node': want, 'kind': kind}, core.exc_detail(e))
            continue
        if got != want:
            acc.fail('path-order:%s:%s' % (kind, order), {'file': fname, 'node': want, 'kind': kind},
                     'asked %s on a fresh load the %s reports %r, after a top-down walk %r' % (order, kind, got, want))


def shards(tier, seed):
    files = list(mapmodel.map_files())
    for c in ('x12.control.00401.xml', 'x12.control.00501.xml'):
        if c not in files:
            files.append(c)
    return [{'kind': 'index'}] + [{'kind': 'file', 'file': f} for f in files]


def run_shard(spec, seed, tier):
    acc = core.Acc()
    if spec['kind'] == 'index':
        check_index(acc)
        acc.extra['exhaustive_slices'] = {'index': 1}
        return acc
    tmp = tempfile.mkdtemp(prefix='vpx_c16_')
    try:
        for f in os.listdir(mapmodel.mapdir()):
            if f.endswith('.xml'):
                shutil.copy(os.path.join(mapmodel.mapdir(), f), os.path.join(tmp, f))
        run_file(spec['file'], acc, tmp)
    finally:
        shutil.rmtree(tmp, ignore_errors=True)
    acc.exhaustive = True
    acc.extra['exhaustive_slices'] = {'file:' + spec['file']: 1}
    return acc
