"""C04  Envelope, control-number and counter checks are exact.

Oracle: vpx.envmodel.recount (independent recount) for well-nested sequences, "no exception and at least one
envelope error" for every other arrangement of header/trailer segments.
"""
import io

from .. import core, x12ref, envmodel

PID = 'C04'
RULE = ('Hypothesis-generated segment sequences. (a) well-nested shapes: 1..3 interchanges x 0..3 groups x 0..3 sets x 0..8 body '
        'segments (HL trees in preorder, CLM/LX runs, filler) with independent perturbations: trailer id != header id, counts '
        'off by one/non-numeric/empty, control number reused inside vs across scopes, truncation after any segment, HL01 off, '
        'HL02 not on the current path / non-numeric / missing, LX out of sequence; oracle = multiset of (level,code) popped after '
        'each segment and after cleanup() equals the independent recount. (b) arbitrary arrangements (random token sequences; '
        'nested shapes with a header/trailer deleted, duplicated, swapped or orphaned), also with adversarially chosen trailer '
        'counts/ids taken from a first pass: oracle = no exception and >=1 envelope error. (c) the validator on generated '
        'interchanges whose 2..4 groups come from two or three different maps of one version (A B A patterns included), envelope '
        'consistent, one LX number of an 837 group changed in 40%: service-line errors in the error tree = recount (837 groups '
        'only), and no envelope error. Non-trivial = >=2 sets or groups, or '
        '>=1 perturbation; distinct by digest of the segment list.')
ASSUMPTIONS = ['HL-parent verdicts are compared up to a second root HL of a set (what counts as the current path afterwards is unspecified); after a bad parent the open levels stay as they were',
               'LX01 with leading zeros is not generated', 'delimiters are ~ * : (C12 covers others)']

ISA_TMPL = ['00', ' ' * 10, '00', ' ' * 10, 'ZZ', 'SENDER'.ljust(15), 'ZZ', 'RECEIVER'.ljust(15), '040101', '1230', 'U', '00401',
            None, '0', 'P', ':']


def expand(segs):
    out = []
    for s in segs:
        if s[0] == 'ISA' and len(s) == 2:
            e = list(ISA_TMPL)
            e[12] = s[1]
            out.append(('ISA', e))
        else:
            out.append((s[0], list(s[1:])))
    return out


FILL = '@FILL@'


def case_eol(case):
    return (case.get('align') or {}).get('eol', '\n')


def expand_case(case):
    """expand() plus alignment: a body segment NTE*ADD*@FILL@ is lengthened so that the terminator of a segment after it falls on
    (or one beside) a read-buffer edge of the raw reader, offsets 106 + 8192 k"""
    esegs = expand(case['segs'])
    f = next((i for i, (sid, e) in enumerate(esegs) if sid == 'NTE' and FILL in e), None)
    if f is None:
        return esegs
    al = case.get('align') or {}
    esegs[f][1][esegs[f][1].index(FILL)] = ''
    t = min(max(f + 1, al.get('target', f + 1)), len(esegs) - 1)
    if t <= f:
        esegs[f][1][-1] = 'X'
        return esegs
    off = len(to_text(esegs[:t + 1], case_eol(case))) - 1 - len(case_eol(case))        # offset of the terminator of segment t while the filler is empty
    k = max(1, al.get('k', 1))
    want = 106 + 8192 * k + al.get('d', 0)
    while want - off < 1:
        want += 8192
    esegs[f][1][-1] = 'F' * (want - off)
    return esegs


def to_text(esegs, eol='\n'):
    return ''.join(sid + '*' + '*'.join('' if x is None else x for x in e) + '~' + eol if e else sid + '~' + eol for sid, e in esegs)


def run_reader(text, lx):
    """-> (per-segment [(level,code)...], final [...], seg ids)"""
    import pyx12.x12file
    rd = pyx12.x12file.X12Reader(io.StringIO(text))
    rd.check_837_lx = lx
    per = []
    ids = []
    for seg in rd:
        per.append(sorted((e[0], e[1]) for e in rd.pop_errors()))
        ids.append(seg.get_seg_id())
    rd.cleanup()
    final = sorted((e[0], e[1]) for e in rd.pop_errors())
    return per, final, ids


def _env_only(lst):
    return [x for x in lst if x in envmodel.ENV_CODES]


def check_validated(case):
    """The same equivalence seen through the validator, which switches maps (and the 837 service-line check) at every
    functional group: an interchange whose groups come from several maps, envelope consistent, LX numbers of its 837
    groups either in sequence or with one drawn number changed."""
    from .. import observe, x12ref
    out = core.Outcome()
    text = case['text']
    meta = case.get('meta', {})
    parts = meta.get('parts', [])
    o = observe.run_validator(text, ack=False)
    if o.exc is not None:
        out.fail(core.exc_bucket(o.exc, 'validated:exception'), core.exc_detail(o.exc))
        return out
    d, segs = x12ref.tokenize(text)
    # independent recount: LX numbering is checked in groups validated with an 837 map only, and restarts at every CLM
    want = []
    gi = -1
    isa = -1
    st = -1
    pos = 0
    lx = 0
    for s in segs:
        if s.id == 'ISA':
            isa += 1
            gidx = -1
        elif s.id == 'GS':
            gi += 1
            gidx += 1
            st = -1
        elif s.id == 'ST':
            st += 1
            pos = 0
            lx = 0
        pos += 1
        is837 = 0 <= gi < len(parts) and parts[gi].startswith('837')
        if s.id == 'CLM':
            lx = 0
        elif s.id == 'LX' and is837:
            lx += 1
            if envmodel.toint(s.elems[0][0] if s.elems else '') != lx:
                want.append((isa, gidx, st, pos))
    got = sorted((e['isa'], e['gs'], e['st'], e['pos']) for e in o.errors if e['level'] == 'seg' and e['code'] == 'LX')
    env = [(e['level'], e['code']) for e in o.errors if e['level'] in ('isa', 'gs', 'st') and e['seg_id'] in (None, 'ISA', 'GS', 'ST', 'SE', 'GE', 'IEA')
           and e['code'] in ('001', '021', '022', '023', '024', '025', '3', '4', '5', '6', '23')]
    if sorted(want) != got:
        missing = [x for x in want if x not in got]
        out.fail('validated:%s:seg/LX' % ('missing' if missing else 'spurious'),
                 'groups %r: service-line errors at (isa, gs, st, pos) %r, recount says %r' % (parts, got, sorted(want)))
    if env:
        out.fail('validated:spurious:%s/%s' % env[0], 'consistent envelope of a mixed interchange drew %r' % env[:4])
    out.classes = ['validated-mixed-interchange', 'lx-perturbed' if meta.get('lx_changed') else 'lx-consistent']
    if len(parts) > 2 and parts[0] in parts[2:] and parts[1] != parts[0]:
        out.classes.append('returns-to-earlier-map')
    if any(p.startswith('837') for p in parts) and not all(p.startswith('837') for p in parts):
        out.classes.append('837-and-other-maps')
    out.nontrivial = len(parts) >= 2
    out.key = text
    return out


def run_validated(n, seed, acc):
    from hypothesis import strategies as st
    from .. import docgen
    from . import c02

    @st.composite
    def case(draw):
        ch = docgen.HypChooser(draw)
        try:
            doc = c02.build_mixed(ch)
        except docgen.GenFail:
            return {'skip': 1}
        changed = False
        lxs = [sg for sg in doc.segs if sg.id == 'LX' and doc.parts and sg.node is not None and sg.chain and len(sg.chain) > 1]
        # one service-line number of an 837 group changed
        gi = -1
        cand = []
        for sg in doc.segs:
            if sg.id == 'GS':
                gi += 1
            elif sg.id == 'LX' and 0 <= gi < len(doc.parts) and doc.parts[gi]['file'].startswith('837'):
                cand.append(sg)
        if cand and ch.chance(.4):
            sg = cand[ch.integer(0, len(cand) - 1)]
            sg.vals[0] = [str(int(sg.vals[0][0]) + ch.choice([1, 2, 5]))]
            changed = True
        return {'validated': True, 'text': doc.text(), 'meta': {'parts': [e['file'] for e in doc.parts], 'lx_changed': changed}}

    def chk(c):
        if 'skip' in c:
            return core.Outcome(classes=['genfail:mixed'])
        return check_validated(c)

    core.hyp_collect(case(), chk, n, seed, acc, case_timeout=120)


def check_case(case):
    if case.get('validated'):
        return check_validated(case)
    out = core.Outcome()
    esegs = expand_case(case)
    lx = bool(case.get('lx'))
    text = to_text(esegs, case_eol(case))
    nested = envmodel.well_nested(esegs)
    if not nested and envmodel.well_nested(esegs, strict_body=False):
        # headers/trailers nest properly but a body segment sits outside any set: how such a segment counts is
        # unspecified, so only totality of the reader is checked
        out.classes = ['body-outside-set']
        try:
            run_reader(text, lx)
        except Exception as e:
            out.fail(core.exc_bucket(e, 'reader'), core.exc_detail(e))
        return out
    meta = case.get('meta', {})
    out.classes = list(meta.get('pert', [])) or ['unperturbed']
    out.classes.append('nested' if nested else 'not-nested')
    nset = sum(1 for s, _ in esegs if s == 'ST')
    ngrp = sum(1 for s, _ in esegs if s == 'GS')
    out.nontrivial = nset >= 2 or ngrp >= 2 or bool(meta.get('pert')) or not nested
    if len(meta.get('pert', [])) >= 2:
        out.classes.append('simultaneous>=2')
    out.key = [case['segs'], lx]
    try:
        per, final, ids = run_reader(text, lx)
    except Exception as e:
        import pyx12.errors
        if isinstance(e, pyx12.errors.X12Error) and any(s == 'ISA' and len(el) != 16 for s, el in esegs):
            return out   # documented refusal of a malformed ISA
        out.fail(core.exc_bucket(e, 'reader'), core.exc_detail(e) + ' on ' + text[106:400].replace('\n', ''))
        return out
    if len(per) != len(esegs):
        raise core.HarnessError('segment count %d vs %d' % (len(per), len(esegs)))
    if nested:
        eper, efinal, exact = envmodel.recount(esegs, lx)
        for i, (g, e) in enumerate(zip(per, eper)):
            g = _env_only(g)
            if not exact[i]:
                g = [x for x in g if x != ('seg', 'HL2')]
                e = [x for x in e if x != ('seg', 'HL2')]
            if g != e:
                missing = [x for x in e if x not in g]
                extra = [x for x in g if x not in e]
                what = ('missing:%s/%s' % missing[0]) if missing else ('spurious:%s/%s' % extra[0])
                out.fail('%s@%s' % (what, esegs[i][0]), 'segment #%d %s*%s: reader reported %r, recount says %r'
                         % (i, esegs[i][0], '*'.join(esegs[i][1])[:60], g, e))
                return out
        if _env_only(final) != efinal:
            out.fail('cleanup', 'after cleanup() reader reported %r, recount says %r' % (final, efinal))
    else:
        allerr = [x for p in per for x in p] + final
        if not [x for x in allerr if x[0] in ('isa', 'gs', 'st')]:
            out.fail('unnested-no-error', 'header/trailer arrangement %s is not well nested but no envelope error was reported'
                     % ' '.join(s for s, _ in esegs if s in envmodel.ENV))
    return out


# ------------------------------------------------------------------ generators

def strategies(tier):
    from hypothesis import strategies as st

    def body(draw, pert, lx):
        """0..8 body segments of one set"""
        segs = []
        n = draw(st.integers(0, 8))
        hl_heavy = draw(st.integers(0, 3)) == 0
        if hl_heavy:
            n = draw(st.integers(4, 14))     # deep HL trees with multi-level returns
        hl = 0
        path = []      # current root-to-previous path of HL numbers
        closed = []    # HL numbers no longer on the path
        lxn = 0
        while len(segs) < n:
            k = 'HL' if hl_heavy and draw(st.integers(0, 5)) > 0 else draw(st.sampled_from(['HL', 'HL', 'REF', 'CLM', 'LX', 'NM1']))
            if 'aligned' not in pert and draw(st.integers(0, 49)) == 0:
                # a long body segment: expand_case() puts the terminator of one of the next segments on a read-buffer edge
                pert.add('aligned')
                segs.append(['NTE', 'ADD', FILL])
                continue
            if k == 'HL':
                hl += 1
                h01 = str(hl)
                if path and draw(st.integers(0, 3 if not hl_heavy else 9)) > 0:
                    # any node of the current path: often the deepest (tree grows), sometimes far up (multi-level return)
                    parent = path[-1] if draw(st.integers(0, 2)) > 0 else draw(st.sampled_from(path))
                    h02 = str(parent)
                else:
                    parent = None
                    h02 = ''
                p = draw(st.integers(0, 11 if not hl_heavy else 7))
                if p == 0:
                    h01 = draw(st.sampled_from([str(hl + 1), str(hl - 1), '0', 'X', '', '01']))
                    if h01 != str(hl) and envmodel.toint(h01) != hl:
                        pert.add('HL01-off')
                    elif h01 == '01':
                        h01 = str(hl)
                elif p == 1:
                    cand = [str(c) for c in closed] + [str(hl), str(hl + 3), '0', 'X', '-1']
                    h02 = draw(st.sampled_from(cand))
                    pert.add('HL02-bad')
                    parent = None
                elif p == 2 and draw(st.integers(0, 2)) == 0:
                    pert.add('HL-short')
                    segs.append(draw(st.sampled_from([['HL'], ['HL', h01]])))
                    # model treats a missing HL02 like an empty one
                    closed += path
                    path = [hl]
                    continue
                segs.append(['HL', h01, h02, draw(st.sampled_from(['20', '22', '23'])), draw(st.sampled_from(['0', '1']))])
                if parent is None:
                    closed += path
                    path = [hl]
                else:
                    while path and path[-1] != parent:
                        closed.append(path.pop())
                    path.append(hl)
            elif k == 'CLM':
                segs.append(['CLM', 'A%d' % len(segs), '100'])
                lxn = 0
            elif k == 'LX':
                # (a service line in front of the first claim of its set is numbered from 1 like any other: the count of the set
                # before does not carry over)
                lxn += 1
                v = str(lxn)
                if draw(st.integers(0, 7)) == 0:
                    v = '0' * draw(st.integers(1, 2)) + v      # the same number, spelled with leading zeros
                    pert.add('LX-leading-zero')
                elif lx and draw(st.integers(0, 7)) == 0:
                    v = draw(st.sampled_from([str(lxn + 1), '0', 'X', '']))
                    pert.add('LX-off')
                segs.append(['LX', v])
            elif k == 'REF':
                segs.append(['REF', '1A', 'X%d' % len(segs)])
            else:
                segs.append(['NM1', '85', '2', 'NAME'])
        return segs

    def bad_count(draw, true):
        # wrong numbers, non-numbers, and spellings of the TRUE number that are not X12 numerics (a plus sign, blanks, an underscore,
        # digits of another script) - only '0<n>' is the true number spelled with a leading zero
        return draw(st.sampled_from([str(true + 1), str(max(0, true - 1)) if true > 0 else '7', 'X', '', str(true + 10), '-1',
                                     '+%d' % true, ' %d' % true, '%d ' % true, '0_%d' % true, ''.join(chr(0xFF10 + int(c)) for c in str(true)),
                                     '0%d' % true]))

    @st.composite
    def nested(draw):
        pert = set()
        lx = draw(st.booleans())
        segs = []
        n_isa = draw(st.sampled_from([1, 1, 1, 2, 3]))
        for ii in range(n_isa):
            ictl = '%09d' % (ii + 1)
            if ii > 0 and draw(st.integers(0, 5)) == 0:
                ictl = '%09d' % 1
                pert.add('dup-isa-id')
            segs.append(['ISA', ictl])
            n_gs = draw(st.sampled_from([0, 1, 1, 1, 2, 3]))
            for gi in range(n_gs):
                gctl = str(gi + 1)
                if gi > 0 and draw(st.integers(0, 5)) == 0:
                    gctl = '1'
                    pert.add('dup-gs-id')
                segs.append(['GS', 'HC', 'SENDER', 'RECEIVER', '20040101', '1230', gctl, 'X', '004010X098A1'])
                n_st = draw(st.sampled_from([0, 1, 1, 2, 3]))
                for si in range(n_st):
                    sctl = '%04d' % (si + 1)
                    if si > 0 and draw(st.integers(0, 5)) == 0:
                        sctl = '0001'
                        pert.add('dup-st-id')
                    st_seg = ['ST', '837', sctl]
                    no_ctl = draw(st.integers(0, 11)) == 0
                    if no_ctl:
                        # no control number: left empty in front of a later element, or not there at all - the same value
                        st_seg = draw(st.sampled_from([['ST', '837', '', 'X1'], ['ST', '837']]))
                        sctl = ''
                        pert.add('control-number-empty-or-absent')
                    segs.append(st_seg)
                    b = body(draw, pert, lx)
                    segs += b
                    cnt = str(len(b) + 2)
                    sid2 = sctl
                    p = draw(st.integers(0, 9))
                    if p == 0:
                        cnt = bad_count(draw, len(b) + 2)
                        pert.add('SE01-bad')
                    elif p == 1:
                        sid2 = draw(st.sampled_from(['9999', '', sctl.lstrip('0') or '0', sctl + ' ']))
                        pert.add('SE02-bad')
                    elif p == 2:
                        cnt = bad_count(draw, len(b) + 2)
                        sid2 = '9999'
                        pert.add('SE01-bad')
                        pert.add('SE02-bad')
                    if no_ctl and sid2 == '':
                        segs.append(draw(st.sampled_from([['SE', cnt], ['SE', cnt, '']])))
                    else:
                        segs.append(['SE', cnt, sid2])
                cnt = str(n_st)
                gid2 = gctl
                p = draw(st.integers(0, 9))
                if p == 0:
                    cnt = bad_count(draw, n_st)
                    pert.add('GE01-bad')
                elif p == 1:
                    gid2 = draw(st.sampled_from(['77', '', '0' + gctl]))
                    pert.add('GE02-bad')
                segs.append(['GE', cnt, gid2])
            cnt = str(n_gs)
            iid2 = ictl
            p = draw(st.integers(0, 9))
            if p == 0:
                cnt = bad_count(draw, n_gs)
                pert.add('IEA01-bad')
            elif p == 1:
                iid2 = draw(st.sampled_from(['000000099', '', ictl.lstrip('0')]))
                pert.add('IEA02-bad')
            segs.append(['IEA', cnt, iid2])
        if draw(st.integers(0, 4)) == 0 and len(segs) > 1:
            cut = draw(st.integers(1, len(segs) - 1))
            # truncation is only "missing trailers at end of input" if it cuts inside the last interchange
            last_isa = max(i for i, s in enumerate(segs) if s[0] == 'ISA')
            cut = max(cut, last_isa + 1)
            if cut < len(segs):
                segs = segs[:cut]
                pert.add('truncated')
        case = {'segs': segs, 'lx': lx, 'meta': {'pert': sorted(pert), 'mode': 'nested'}}
        f = next((i for i, x in enumerate(segs) if FILL in x), None)
        if f is not None:
            case['align'] = {'target': f + draw(st.integers(1, 4)), 'k': draw(st.sampled_from([1, 1, 2])), 'd': draw(st.sampled_from([-1, 0, 0, 0, 1])),
                             'eol': draw(st.sampled_from(['', '', '\n', '\r\n']))}
        elif 'aligned' in pert:
            case['meta']['pert'] = sorted(pert - {'aligned'})      # cut away by the truncation
        return case

    @st.composite
    def arbitrary(draw):
        base = draw(nested())
        segs = [list(s) for s in base['segs']]
        pert = set(base['meta']['pert'])
        mode = draw(st.sampled_from(['mutate', 'mutate', 'random']))
        if mode == 'random':
            n = draw(st.integers(1, 25))
            toks = draw(st.lists(st.sampled_from(['ISA', 'GS', 'ST', 'SE', 'GE', 'IEA', 'HL', 'REF', 'ST', 'SE']), min_size=n, max_size=n))
            segs = [['ISA', '000000001']]
            c = {'i': 1, 'g': 0, 's': 0}
            for t in toks:
                if t == 'ISA':
                    c['i'] += 1
                    segs.append(['ISA', '%09d' % c['i']])
                elif t == 'GS':
                    c['g'] += 1
                    segs.append(['GS', 'HC', 'A', 'B', '20040101', '1230', str(c['g']), 'X', '004010X098A1'])
                elif t == 'ST':
                    c['s'] += 1
                    segs.append(['ST', '837', '%04d' % c['s']])
                elif t == 'SE':
                    segs.append(['SE', str(draw(st.integers(0, 6))), '%04d' % max(1, c['s'])])
                elif t == 'GE':
                    segs.append(['GE', str(draw(st.integers(0, 3))), str(max(1, c['g']))])
                elif t == 'IEA':
                    segs.append(['IEA', str(draw(st.integers(0, 3))), '%09d' % c['i']])
                elif t == 'HL':
                    segs.append(['HL', '1', '', '20', '1'])
                else:
                    segs.append(['REF', '1A', 'X'])
            pert.add('random-arrangement')
        else:
            nm = draw(st.integers(1, 2))
            for _ in range(nm):
                env = [i for i, s in enumerate(segs) if s[0] in envmodel.ENV and i > 0]
                if not env:
                    break
                i = draw(st.sampled_from(env))
                op = draw(st.sampled_from(['delete', 'duplicate', 'swap', 'orphan-trailer', 'orphan-header', 'move']))
                if op == 'delete':
                    del segs[i]
                elif op == 'duplicate':
                    segs.insert(i, list(segs[i]))
                elif op == 'swap' and i + 1 < len(segs):
                    segs[i], segs[i + 1] = segs[i + 1], segs[i]
                elif op == 'orphan-trailer':
                    t = draw(st.sampled_from([['SE', '2', '0001'], ['GE', '1', '1'], ['IEA', '1', '000000001']]))
                    segs.insert(draw(st.integers(1, len(segs))), t)
                elif op == 'orphan-header':
                    t = draw(st.sampled_from([['ST', '837', '0077'], ['GS', 'HC', 'A', 'B', '20040101', '1230', '77', 'X', '004010X098A1'],
                                              ['ISA', '000000077']]))
                    segs.insert(draw(st.integers(1, len(segs))), t)
                else:
                    s = segs.pop(i)
                    segs.insert(draw(st.integers(1, len(segs))), s)
                pert.add('arr:' + op)
        adv = draw(st.booleans())
        case = {'segs': segs, 'lx': base['lx'], 'adversarial': adv, 'meta': {'pert': sorted(pert), 'mode': 'arbitrary'}}
        if 'align' in base and mode != 'random':
            case['align'] = base['align']
        return case

    return nested(), arbitrary()


def adversarial(case):
    """Second pass: give every trailer the id and count the reader itself expects at that point (crafting only)."""
    import pyx12.x12file
    esegs = expand_case(case)
    try:
        rd = pyx12.x12file.X12Reader(io.StringIO(to_text(esegs, case_eol(case))))
        rd.check_837_lx = bool(case.get('lx'))
        it = iter(rd)
        new = []
        i = 0
        while True:
            top = rd.loops[-1] if rd.loops else None
            cnt = {'SE': rd.seg_count + 1, 'GE': rd.st_count, 'IEA': rd.gs_count}
            try:
                seg = next(it)
            except StopIteration:
                break
            sid = seg.get_seg_id()
            s = list(case['segs'][i])
            if sid in ('SE', 'GE', 'IEA') and top is not None:
                # find the innermost open loop of the right kind
                want = {'SE': 'ST', 'GE': 'GS', 'IEA': 'ISA'}[sid]
                if top[0] == want:
                    s = [sid, str(cnt[sid]), top[1]]
            new.append(s)
            i += 1
        if len(new) != len(case['segs']):
            return None
    except Exception:
        return None
    c = dict(case)
    c['segs'] = new
    c['meta'] = dict(case.get('meta', {}))
    c['meta']['pert'] = sorted(set(c['meta'].get('pert', [])) | {'adversarial-counts'})
    c.pop('adversarial', None)
    return c


def shards(tier, seed):
    n = 16
    per = 4000 if tier == 'thorough' else 1200
    return [{'kind': k, 'shard': i, 'n': per} for i in range(n // 2) for k in ('nested', 'arbitrary')] + \
        [{'kind': 'validated', 'shard': i, 'n': 80 if tier == 'thorough' else 24} for i in range(8)]


def run_shard(spec, seed, tier):
    acc = core.Acc()
    if spec['kind'] == 'validated':
        run_validated(spec['n'], seed * 1000 + 900 + spec['shard'], acc)
        return acc
    nested, arbitrary = strategies(tier)
    if spec['kind'] == 'nested':
        core.hyp_collect(nested, check_case, spec['n'], seed * 1000 + spec['shard'], acc)
    else:
        def chk(case):
            out = check_case(case)
            if case.get('adversarial') and not out.failures:
                c2 = adversarial(case)
                if c2 is not None and c2['segs'] != case['segs']:
                    acc.add(c2, check_case(c2))
            return out
        core.hyp_collect(arbitrary, chk, spec['n'], seed * 1000 + 500 + spec['shard'], acc)
    return acc
