"""C02  Every map-conformant document is accepted with zero errors.

Documents are constructed (not filtered) from the shipped maps as read by vpx.mapmodel; the oracle is
"accepted": verdict True, empty error tree, no exception, acknowledgement accepting every set and group.
"""
from .. import core, mapmodel as mm, docgen, observe, x12ref

PID = 'C02'
RULE = ('For every index entry that selects a transaction map: documents built by walking the map in position order (required '
        'nodes once or more, situational nodes with drawn probability, repeats within limits incl. at-the-limit cases, loops '
        'entered through their first segment, admissible values per type/length/code list/syntax notes, HL/LX/control numbers '
        'consistent), 1..2 interchanges x 1..2 groups x 1..3 sets, structural choices = Hypothesis draws. A generated segment is '
        'kept only if the first group of candidate nodes in scan order contains exactly the intended node (unambiguity). Thorough '
        'adds target mode: every segment node of every map is forced into >=3 documents. Both tiers add mixed interchanges: 2..4 groups '
        'drawn from two or three transaction maps of one ISA version in one interchange (A B A patterns included). Non-trivial = >=8 body segments and >=1 '
        'situational node used; distinct by digest of the intended-node sequence.')
ASSUMPTIONS = ['vpx/mapmodel.py reading of the map XML and the published matching rule (id + qualifier) used for the unambiguity filter',
               'wrapper loops (HEADER/DETAIL/FOOTER/TABLE*) are transparent; values avoid ~ * : ^']


def entries():
    seen = set()
    out = []
    for e in mm.transaction_entries():
        k = (e['file'], e['tspc'], e['icvn'], e['vriic'], e['fic'])
        if k in seen:
            continue
        seen.add(k)
        out.append(e)
    return out


def ack_summary(ack):
    """-> dict(sets=[codes], groups=[(code, declared, received, accepted)]) parsed with the reference tokeniser"""
    d, segs = x12ref.tokenize(ack)
    sets = []
    groups = []
    for s in segs:
        if s.id in ('AK5', 'IK5'):
            sets.append(s.elems[0][0] if s.elems else None)
        elif s.id == 'AK9':
            v = [e[0] for e in s.elems]
            groups.append(tuple(v[:4]))
    return {'sets': sets, 'groups': groups}


def check_case(case):
    out = core.Outcome()
    text = case['text']
    meta = case.get('meta', {})
    o = observe.run_validator(text, ack=True, html=False, xml=False)
    f = meta.get('file', '?')
    if o.exc is not None:
        out.fail(core.exc_bucket(o.exc, 'exception:%s' % f), core.exc_detail(o.exc))
    else:
        if o.errors:
            e = o.errors[0]
            out.fail('rejected:%s:%s/%s/%s' % (f, e['level'], e['code'], e['seg_id']),
                     '%d error(s); first: %s code %s at %s pos %s ele %s: %s' % (len(o.errors), e['level'], e['code'], e['seg_id'], e['pos'], e['ele'], (e['msg'] or '')[:200]))
        elif o.verdict is not True:
            out.fail('verdict-false-without-errors:%s' % f, 'verdict %r, error tree empty' % (o.verdict,))
        if o.ack:
            try:
                a = ack_summary(o.ack)
                d, segs = x12ref.tokenize(text)
                nsets = sum(1 for s in segs if s.id == 'ST')
                ngrp = sum(1 for s in segs if s.id == 'GS')
                if not o.errors and o.verdict is True:
                    if len(a['sets']) != nsets or any(c != 'A' for c in a['sets']):
                        out.fail('ack-set-not-accepted:%s' % f, 'AK5/IK5 codes %r for %d sets' % (a['sets'], nsets))
                    if len(a['groups']) != ngrp or any(g[0] != 'A' for g in a['groups']):
                        out.fail('ack-group-not-accepted:%s' % f, 'AK9 %r for %d groups' % (a['groups'], ngrp))
                    else:
                        per = _sets_per_group(segs)
                        for g, n in zip(a['groups'], per):
                            if tuple(g[1:4]) != (str(n),) * 3:
                                out.fail('ack-group-totals:%s' % f, 'AK9 %r, group has %d sets' % (g, n))
            except Exception as e:
                out.fail('ack-unreadable:%s' % f, core.exc_detail(e))
        elif not meta.get('is_ack'):
            out.fail('no-ack-written:%s' % f, 'acknowledgement sink empty')
    out.nontrivial = meta.get('body', 0) >= 8 and meta.get('situational', 0) >= 1
    out.classes = ['map:' + f] + list(meta.get('tags', []))
    out.key = meta.get('paths_digest') or text
    return out


def _sets_per_group(segs):
    per = []
    for s in segs:
        if s.id == 'GS':
            per.append(0)
        elif s.id == 'ST' and per:
            per[-1] += 1
    return per


def make_case(doc, extra_tags=()):
    text = doc.text()
    body = [s for s in doc.segs if s.id not in ('ISA', 'GS', 'ST', 'SE', 'GE', 'IEA')]
    tags = set(extra_tags)
    for s in doc.segs:
        tags |= s.tags
    return {'text': text,
            'meta': {'file': doc.entry['file'], 'tspc': doc.entry.get('tspc'), 'icvn': doc.icvn, 'body': len(body),
                     'situational': sum(1 for s in body if s.node.usage == 'S'), 'tags': sorted(tags),
                     'is_ack': doc.entry['fic'] == 'FA',
                     'paths_digest': core.digest([mm.path(s.node) + str(s.node.pos) for s in doc.segs]),
                     'draws': doc.stats.get('draws'), 'ambiguous_rejections': doc.stats.get('ambiguous_rejections')}}


KNOWN_CTX = 'rejected:%s:seg/5/CTX'


def strip_known(doc, acc):
    """Known finding (999 maps): the two same-position CTX nodes under 2100 share one path, hence one counter.
    Exclude the trigger by construction: keep only one kind of CTX per 2100 loop instance; count what was excluded."""
    if doc.root.id != '999':
        return
    keep = []
    kinds = {}
    removed = 0
    for s in doc.segs:
        if s.id == 'CTX' and mm.path(s.node).endswith('/2100/CTX'):
            inst = s.chain[-1][1]
            k = kinds.setdefault(inst, id(s.node))
            if k != id(s.node):
                removed += 1
                continue
        keep.append(s)
    if removed:
        doc.segs[:] = keep
        docgen.fixup(doc, 7)
        acc.excluded[KNOWN_CTX % doc.entry['file']] += 1


def gen_params(ch):
    p = ch.choice([.15, .3, .5, .8])
    return dict(p_seg=p, p_loop=ch.choice([.15, .3, .5]), max_rep=ch.choice([2, 2, 3]),
                shape=(ch.choice([1, 1, 1, 2]), ch.choice([1, 1, 2]), ch.choice([1, 1, 2, 3])))


def run_entry(entry, n, seed, acc, tier, checker=None, flavor='plain'):
    from hypothesis import strategies as st
    checker = checker or check_case

    @st.composite
    def case(draw):
        ch = docgen.HypChooser(draw)
        kw = gen_params(ch)
        doc = None
        err = None
        dl = None
        avoid = '~*:^'
        if ch.chance(.35):
            # conformance does not depend on the spelling: another legal delimiter set (C12's rules), line breaks after terminators,
            # and - where the free text of the document leaves room - a terminator on a read-buffer edge
            from . import c12
            dl = c12.draw_delims(ch, entry['icvn'])
            avoid += ''.join(dl)
        for attempt in range(6):
            # backtracking: when a required node cannot be emitted unambiguously, the optional siblings that
            # caused it are thinned out and the document is rebuilt
            try:
                doc = docgen.build_doc(entry, ch, values=docgen.Values(avoid, flavor, entry['icvn']), **kw)
                break
            except docgen.GenFail as e:
                err = e
                kw = dict(kw, p_loop=kw['p_loop'] * .4, p_seg=kw['p_seg'] * .7)
                if attempt >= 3:
                    kw['p_loop'] = 0.0
        if doc is None:
            return {'genfail': str(err)[:200], 'meta': {'file': entry['file']}}
        strip_known(doc, acc)
        if dl is None:
            return make_case(doc)
        eol = '' if dl[0] == '\n' else ch.choice(['', '\n', '\r\n'])
        tags = ['layout:other-delimiters', 'layout:eol=%r' % eol]
        if ch.chance(.6) and docgen.pad_to_boundary(doc, dl[0], dl[1], dl[2], eol, dl[3], delta=ch.choice([-1, 0, 0, -2, 1]), safe=True):
            tags.append('layout:terminator-on-buffer-edge')
        c = make_case(doc, tags)
        c['text'] = doc.text(term=dl[0], ele=dl[1], sub=dl[2], rep=dl[3], eol=eol)
        return c

    def chk(c):
        if 'genfail' in c:
            acc.extra.setdefault('generation_failures', {})
            k = '%s: %s' % (entry['file'], c['genfail'][:80])
            acc.extra['generation_failures'][k] = acc.extra['generation_failures'].get(k, 0) + 1
            return core.Outcome(classes=['genfail:' + entry['file']])
        return checker(c)

    core.hyp_collect(case(), chk, n, seed, acc, case_timeout=120)


def mixed_pool(icvn):
    """entries that may share an interchange: the transaction maps of one ISA version (not the acknowledgement entries, whose
    GS08 variants are the subject of a known finding, and not the maps that cannot be loaded or selected)"""
    return [e for e in entries() if e['icvn'] == icvn and e['fic'] != 'FA' and not e['file'].startswith(('830.', '841.'))]


_loop_paths = {}


def _common_loops(f1, f2):
    """number of loop paths (below the set level) the two maps have in common"""
    def paths(f):
        if f not in _loop_paths:
            root = mm.load_map(f)
            _loop_paths[f] = set(mm.path(n) for n in mm.walk(root) if n.kind == 'loop' and n.id not in ('ISA_LOOP', 'GS_LOOP', 'ST_LOOP')
                                 and n.id not in ('HEADER', 'DETAIL', 'FOOTER'))
        return _loop_paths[f]
    return len(paths(f1) & paths(f2))


def build_mixed(ch, flavor='plain', values_avoid='~*:^'):
    """-> Doc: one interchange, 2..4 functional groups drawn from two or three maps of one version (A B A patterns included)"""
    icvn = ch.choice(['00401', '00401', '00501'])
    pool = mixed_pool(icvn)
    picks = [pool[ch.integer(0, len(pool) - 1)] for _ in range(ch.choice([2, 2, 3]))]
    if ch.chance(.6):
        # a partner that is easy to confuse with the first pick: another map that has loops of the same path
        near = [e for e in pool if e['file'] != picks[0]['file'] for _ in range(min(12, _common_loops(picks[0]['file'], e['file'])))]
        if near:
            picks[1] = near[ch.integer(0, len(near) - 1)]
    seq = picks[:2] + [picks[ch.integer(0, len(picks) - 1)] for _ in range(ch.choice([0, 1, 1, 2]))]
    docs = []
    for e in seq:
        kw = dict(p_seg=ch.choice([.15, .3, .5]), p_loop=ch.choice([.15, .3, .5]), max_rep=ch.choice([2, 3]), shape=(1, 1, ch.choice([1, 1, 2])), max_segs=150)
        d = None
        for attempt in range(5):
            try:
                d = docgen.build_doc(e, ch, values=docgen.Values(values_avoid, flavor, icvn), **kw)
                break
            except docgen.GenFail:
                kw = dict(kw, p_loop=kw['p_loop'] * .4, p_seg=kw['p_seg'] * .7)
                if attempt >= 2:
                    kw['p_loop'] = 0.0
        if d is None:
            raise docgen.GenFail('mixed part %s' % e['file'])
        docs.append(d)
    return docgen.merge_docs(docs)


def run_mixed(n, seed, acc, tier, checker=None):
    from hypothesis import strategies as st
    checker = checker or check_case

    @st.composite
    def case(draw):
        ch = docgen.HypChooser(draw)
        if ch.chance(.2):
            # one file, two interchanges of different versions (a 00401 one and a 00501 one, either order): each is read by
            # the control segments of its own version
            try:
                parts = []
                for icvn in (['00401', '00501'] if ch.chance(.5) else ['00501', '00401']):
                    pool = mixed_pool(icvn)
                    e = pool[ch.integer(0, len(pool) - 1)]
                    kw = dict(p_seg=.3, p_loop=.2, max_rep=2, shape=(1, ch.choice([1, 2]), 1), max_segs=120)
                    d = None
                    for attempt in range(5):
                        try:
                            d = docgen.build_doc(e, ch, **kw)
                            break
                        except docgen.GenFail:
                            kw = dict(kw, p_loop=0.0)
                    if d is None:
                        raise docgen.GenFail('two-version part %s' % e['file'])
                    parts.append(d)
            except docgen.GenFail as e:
                return {'genfail': str(e)[:200]}
            ctl = '%09d' % (int(parts[0].segs[0].vals[12][0]) % 10 ** 8 + 1)
            parts[1].segs[0].vals[12] = [ctl]
            for s_ in parts[1].segs:
                if s_.id == 'IEA':
                    s_.vals[1] = [ctl]
            c = make_case(parts[1], ['two-interchanges-of-different-versions'])
            c['text'] = parts[0].text() + parts[1].text()
            c['meta']['file'] = 'two-versions'
            c['meta']['parts'] = [d.entry['file'] for d in parts]
            c['meta']['paths_digest'] = None
            return c
        try:
            doc = build_mixed(ch)
        except docgen.GenFail as e:
            return {'genfail': str(e)[:200]}
        c = make_case(doc, ['mixed-maps'])
        files = [e['file'] for e in doc.parts]
        c['meta']['file'] = 'mixed'
        c['meta']['parts'] = files
        if len(files) > 2 and files[0] in files[2:] and files[1] != files[0]:
            c['meta']['tags'] = sorted(set(c['meta']['tags']) | {'mixed-maps:returns-to-earlier-map'})
        return c

    def chk(c):
        if 'genfail' in c:
            return core.Outcome(classes=['genfail:mixed'])
        return checker(c)

    core.hyp_collect(case(), chk, n, seed, acc, case_timeout=120)


def run_targets(entry, seed, acc, per_node, checker=None):
    """thorough: force every segment node of the map into per_node documents (PRNG chooser seeded from VERIF_SEED)"""
    checker = checker or check_case
    root = mm.load_map(entry['file'])
    nodes = [n for n in mm.walk(root) if n.kind == 'seg' and n.usage != 'N' and _usable(n)]
    reached = 0
    for i, node in enumerate(nodes):
        ok = 0
        for k in range(per_node * 3):
            if ok >= per_node:
                break
            ch = docgen.RandomChooser(seed * 1000003 + i * 101 + k)
            try:
                doc = docgen.build_doc(entry, ch, p_seg=.12, p_loop=.12, max_rep=2, target=node, shape=(1, 1, 1))
            except docgen.GenFail as e:
                acc.classes['target-genfail'] += 1
                continue
            strip_known(doc, acc)
            if not any(s.node is node for s in doc.segs):
                continue
            c = make_case(doc, ['target'])
            acc.add(c, checker(c))
            ok += 1
        if ok:
            reached += 1
    acc.extra.setdefault('target_nodes', {})[entry['file']] = '%d/%d' % (reached, len(nodes))


def _usable(n):
    p = n.parent
    while p is not None and p.kind != 'root':
        if p.usage == 'N':
            return False
        p = p.parent
    return True


def shards(tier, seed):
    s = []
    for i, e in enumerate(entries()):
        s.append({'kind': 'random', 'entry': e, 'i': i, 'n': 120 if tier == 'thorough' else 30})
        if tier == 'thorough':
            s.append({'kind': 'targets', 'entry': e, 'i': i, 'per_node': 3})
    for i in range(8):
        s.append({'kind': 'mixed', 'i': 100 + i, 'n': 60 if tier == 'thorough' else 20})
    return s


def run_shard(spec, seed, tier):
    acc = core.Acc()
    if spec['kind'] == 'mixed':
        run_mixed(spec['n'], seed * 1000 + spec['i'], acc, tier)
        return acc
    e = spec['entry']
    try:
        mm.load_map(e['file'])
    except Exception as ex:
        acc.classes['xml-unreadable:' + e['file']] += 1
        acc.evaluations += 1
        return acc
    if spec['kind'] == 'random':
        run_entry(e, spec['n'], seed * 1000 + spec['i'], acc, tier)
    else:
        run_targets(e, seed, acc, spec['per_node'])
    return acc
