"""C09  Context reader partitions the document without loss, duplication or reordering."""
import io

from .. import core, docgen, x12ref, mapmodel as mm, observe
from . import genfaulty, c02

PID = 'C09'
RULE = ('Generated conformant documents of every transaction map (1..2 interchanges/groups/sets, repeated and nested loops) x loop id in '
        '{None} + every loop of the map whose first child is a segment (ISA_LOOP, GS_LOOP, ST_LOOP included). From the generator\'s '
        'instance tree: the concatenation of yielded segments equals the source in order; every yielded tree is rooted at the '
        'requested loop and holds exactly the segments of one instance; inside a tree each segment\'s chain of loop ancestors equals '
        'the suffix of its intended map path and two segments share a loop node exactly when they share the loop instance; every '
        'segment carries its source line and (ST and body segments) its position in the set. Non-trivial = the requested loop '
        'occurs >=2 times, or ends its parent/the file; distinct by digest of (text, loop id).')
ASSUMPTIONS = ['documents are structurally valid (every segment located in its map)', 'values avoid ~ * : ^']


def loop_ids(fname):
    root = mm.load_map(fname)
    out = []
    for n in mm.walk(root):
        if n.kind == 'loop' and n.children and n.children[0].kind == 'seg' and n.usage != 'N' and n.id not in out:
            out.append(n.id)
    return out


def tree_segments(node, anc, out):
    """flatten a yielded loop tree: [(segment node, [(loop id, loop node identity)...])]"""
    for ch in node.children:
        if ch.type is None:
            continue
        if ch.type == 'loop':
            tree_segments(ch, anc + [(ch.id, id(ch))], out)
        else:
            out.append((ch, anc))
    return out


def check_case(case):
    import pyx12.x12context
    import pyx12.params
    import pyx12.error_handler
    observe.quiet()
    out = core.Outcome()
    text = case['text']
    lid = case.get('loop_id')
    paths = case['paths']
    insts = case['insts']
    meta = case.get('meta', {})
    out.classes = ['map:' + meta.get('file', '?'), 'loop:' + ('none' if lid is None else 'envelope' if lid in ('ISA_LOOP', 'GS_LOOP', 'ST_LOOP') else 'body')]
    out.key = [text, lid]
    d, src = x12ref.tokenize(text)
    # expected partition
    inst_of = []
    for p, n in zip(paths, insts):
        inst_of.append(n[p.index(lid)] if lid is not None and lid in p else None)
    ninst = len(set(x for x in inst_of if x is not None))
    ends_file = lid is not None and inst_of and inst_of[-1] is not None
    out.nontrivial = ninst >= 2 or bool(ends_file) or (lid is not None and any(a is not None and b is None for a, b in zip(inst_of, inst_of[1:])))
    if ninst >= 2:
        out.classes.append('repeats')
    if ninst == 0 and lid is not None:
        out.classes.append('loop-absent')
    try:
        rd = pyx12.x12context.X12ContextReader(pyx12.params.params(), pyx12.error_handler.errh_null(), io.StringIO(text))
        got = []          # (snapshot, tree number or None, [(loop id, identity)], seg_count, line, root id)
        t = 0
        complaints = []

        def errs_of(sn):
            for k_ in ('err_isa', 'err_gs', 'err_st', 'err_seg', 'err_ele'):
                for e_ in getattr(sn, k_, None) or []:
                    complaints.append((sn.seg_data.get_seg_id(), k_, repr(e_)[:160]))
        for node in rd.iter_segments(lid):
            if node.type == 'loop':
                t += 1
                flat = tree_segments(node, [(node.id, id(node))], [])
                for sn, anc in flat:
                    got.append((x12ref.snapshot(sn.seg_data), t, anc, sn.seg_count, sn.cur_line_number, node.id))
                    errs_of(sn)
            else:
                got.append((x12ref.snapshot(node.seg_data), None, None, node.seg_count, node.cur_line_number, None))
                errs_of(node)
    except Exception as e:
        out.fail(core.exc_bucket(e, 'iter'), 'loop_id=%r: %s' % (lid, core.exc_detail(e)))
        return out
    want = [(s.id, s.elems) for s in src]
    have = [(g[0][0], g[0][1]) for g in got]
    if have != want:
        j = 0
        while j < min(len(have), len(want)) and have[j] == want[j]:
            j += 1
        kind = 'lost' if len(have) < len(want) else 'duplicated' if len(have) > len(want) else 'reordered-or-changed'
        out.fail('partition:%s%s' % (kind, ':tail-never-yielded' if kind == 'lost' and j == len(have) else ''),
                 'loop_id=%r: yielded %d segments, source has %d; first difference at #%d (%s)' % (lid, len(have), len(want), j, want[j][0] if j < len(want) else None))
        return out
    # tree membership = loop instance membership
    tree_of = {}
    for i, g in enumerate(got):
        exp_inst = inst_of[i]
        if (g[1] is None) != (exp_inst is None):
            out.fail('tree-membership:%s' % ('outside-segment-in-tree' if exp_inst is None else 'loop-segment-yielded-bare'),
                     'loop_id=%r segment #%d %s: in tree=%r, generator says in loop instance=%r' % (lid, i, want[i][0], g[1], exp_inst))
            return out
        if g[1] is not None:
            if g[5] != lid:
                out.fail('tree-root', 'tree rooted at %r, requested %r' % (g[5], lid))
                return out
            prev = tree_of.setdefault(g[1], exp_inst)
            if prev != exp_inst:
                out.fail('tree-spans-instances', 'loop_id=%r segment #%d %s: tree #%d holds instances %r and %r' % (lid, i, want[i][0], g[1], prev, exp_inst))
                return out
    if len(set(tree_of.values())) != len(tree_of):
        out.fail('instance-split-over-trees', 'loop_id=%r: %d trees for %d instances' % (lid, len(tree_of), len(set(tree_of.values()))))
        return out
    # nesting inside trees
    for i, g in enumerate(got):
        if g[1] is None:
            continue
        k = paths[i].index(lid)
        if [a for a, _ in g[2]] != paths[i][k:]:
            env = lid in ('ISA_LOOP', 'GS_LOOP', 'ST_LOOP')
            out.fail('nesting-path:%s:%s' % (lid if env else 'body-loop', want[i][0] if env and want[i][0] in ('ISA', 'GS', 'ST', 'SE', 'GE', 'IEA', 'TA1') else 'body-segment'), 'loop_id=%r segment #%d %s: ancestors %r, intended path suffix %r' % (lid, i, want[i][0], [a for a, _ in g[2]], paths[i][k:]))
            return out
        if i > 0 and got[i - 1][1] == g[1]:
            pa, pb = got[i - 1][2], g[2]
            ia, ib = insts[i - 1][paths[i - 1].index(lid):], insts[i][k:]
            for depth in range(min(len(pa), len(pb))):
                if (pa[depth][1] == pb[depth][1]) != (ia[depth] == ib[depth]):
                    out.fail('nesting-instance:%s' % ('merged' if pa[depth][1] == pb[depth][1] else 'split'),
                             'loop_id=%r segments #%d/#%d at depth %d (%s)' % (lid, i - 1, i, depth, pb[depth][0]))
                    return out
    # a conformant document (generated without value faults) draws no complaint from the context reader either: the
    # walker behind it is the validator's
    if not meta.get('value_faults') and complaints:
        out.fail('conformant-document-draws-error:%s' % complaints[0][0], 'loop_id=%r: %r' % (lid, complaints[:3]))
        return out
    # line numbers and positions
    pos = 0
    for i, (g, s) in enumerate(zip(got, src)):
        if s.id == 'ST':
            pos = 0
        pos += 1
        if g[4] != i + 1:
            out.fail('line-number', 'loop_id=%r segment #%d %s: cur_line_number %r' % (lid, i, s.id, g[4]))
            return out
        if s.id not in ('ISA', 'GS', 'GE', 'IEA', 'TA1') and g[3] != pos:
            out.fail('position-in-set', 'loop_id=%r segment #%d %s: seg_count %r, position %d' % (lid, i, s.id, g[3], pos))
            return out
    return out


def run_entry(entry, n, seed, acc, tier):
    from hypothesis import strategies as st
    lids = loop_ids(entry['file'])

    @st.composite
    def case(draw):
        ch = docgen.HypChooser(draw)
        kw = dict(p_seg=ch.choice([.2, .4, .7]), p_loop=ch.choice([.2, .4, .6]), max_rep=ch.choice([2, 3]), max_segs=300,
                  shape=ch.choice([(1, 1, 1), (1, 1, 2), (1, 2, 1), (2, 1, 1), (1, 2, 2)]))
        doc = None
        for attempt in range(5):
            try:
                doc = docgen.build_doc(entry, ch, **kw)
                break
            except docgen.GenFail:
                kw = dict(kw, p_loop=kw['p_loop'] * .4)
                if attempt >= 2:
                    kw['p_loop'] = 0.0
        if doc is None:
            return {'skip': 'genfail'}
        c02.strip_known(doc, acc)
        # "structurally valid" does not ask for valid values: defects that leave the matching of segments alone
        vf = 0
        if ch.chance(.3):
            from .. import faults
            for _ in range(ch.integer(1, 3)):
                kind = ch.choice(['too-long', 'too-short', 'wrong-char-class', 'bad-date', 'bad-time', 'required-removed', 'extra-component', 'extra-element'])
                cands = faults.candidates(doc, kind)
                if cands:
                    res = faults.inject(doc, kind, cands[ch.integer(0, len(cands) - 1)], ch.seed())
                    if res is not None:
                        doc = res[0]
                        vf += 1
        present = []
        for s in doc.segs:
            for l, k in s.chain:
                if l.id in lids and l.id not in present:
                    present.append(l.id)
        # all loop ids present in this document + None + one absent id
        chosen = [None] + present
        absent = [x for x in lids if x not in present]
        if absent:
            chosen.append(absent[ch.integer(0, len(absent) - 1)])
        eol = ch.choice(['\n', '\n', '', '\r\n'])
        if ch.chance(.3):
            docgen.pad_to_boundary(doc, eol=eol, delta=ch.choice([-1, 0, 0, 1]), safe=True)    # a terminator on a read-buffer edge
        return {'text': doc.text(eol=eol), 'loop_ids': chosen,
                'paths': [[l.id for l, k in s.chain] for s in doc.segs], 'insts': [[k for l, k in s.chain] for s in doc.segs],
                'meta': {'file': entry['file'], 'value_faults': vf}}

    def chk(c):
        if 'skip' in c:
            return core.Outcome(classes=['skipped:' + c['skip']])
        first = None
        for lid in c['loop_ids']:
            sub = {'text': c['text'], 'loop_id': lid, 'paths': c['paths'], 'insts': c['insts'], 'meta': c['meta']}
            o = check_case(sub)
            if c['meta'].get('value_faults'):
                o.classes.append('with-value-level-defects')
            if first is None:
                first = (sub, o)
            else:
                acc.add(sub, o)
        c.clear()
        c.update(first[0])
        return first[1]

    core.hyp_collect(case(), chk, n, seed, acc, case_timeout=120)


def run_mixed(n, seed, acc):
    """one file whose functional groups belong to different maps: the reader changes maps on the way"""
    from hypothesis import strategies as st

    @st.composite
    def case(draw):
        ch = docgen.HypChooser(draw)
        try:
            doc = c02.build_mixed(ch)
        except docgen.GenFail:
            return {'skip': 'genfail'}
        lids = []
        for e in doc.parts:
            for x in loop_ids(e['file']):
                if x not in lids:
                    lids.append(x)
        present = []
        for s in doc.segs:
            for l, k in s.chain:
                if l.id in lids and l.id not in present:
                    present.append(l.id)
        # loop ids that occur in groups of two different maps first, then a few of the others
        def nparts(lid):
            seen = set()
            gi = -1
            for s in doc.segs:
                if s.id == 'GS':
                    gi += 1
                if any(l.id == lid for l, k in s.chain) and 0 <= gi < len(doc.parts):
                    seen.add(doc.parts[gi]['file'])
            return len(seen)
        shared = [x for x in present if x not in ('ISA_LOOP', 'GS_LOOP', 'ST_LOOP') and nparts(x) > 1]
        rest = [x for x in present if x not in shared]
        chosen = [None] + shared[:4] + [rest[ch.integer(0, len(rest) - 1)] for _ in range(min(2, len(rest)))]
        eol = ch.choice(['\n', '\n', '', '\r\n'])
        if ch.chance(.3):
            docgen.pad_to_boundary(doc, eol=eol, delta=ch.choice([-1, 0, 0, 1]), safe=True)    # a terminator on a read-buffer edge
        return {'text': doc.text(eol=eol), 'loop_ids': chosen,
                'paths': [[l.id for l, k in s.chain] for s in doc.segs], 'insts': [[k for l, k in s.chain] for s in doc.segs],
                'meta': {'file': 'mixed', 'parts': [e['file'] for e in doc.parts], 'shared_loop_ids': len(shared)}}

    def chk(c):
        if 'skip' in c:
            return core.Outcome(classes=['skipped:' + c['skip']])
        first = None
        for lid in c['loop_ids']:
            sub = {'text': c['text'], 'loop_id': lid, 'paths': c['paths'], 'insts': c['insts'], 'meta': c['meta']}
            o = check_case(sub)
            o.classes.append('mixed-maps')
            if c['meta'].get('shared_loop_ids') and lid is not None:
                o.classes.append('mixed-maps:loop-id-in-two-maps')
            if first is None:
                first = (sub, o)
            else:
                acc.add(sub, o)
        c.clear()
        c.update(first[0])
        return first[1]

    core.hyp_collect(case(), chk, n, seed, acc, case_timeout=120)


def shards(tier, seed):
    return [{'entry': e, 'i': i, 'n': 100 if tier == 'thorough' else 5} for i, e in enumerate(genfaulty.entries(exclude_ack=False))] + \
        [{'mixed': True, 'i': 300 + i, 'n': 60 if tier == 'thorough' else 8} for i in range(8)]


def run_shard(spec, seed, tier):
    acc = core.Acc()
    if spec.get('mixed'):
        run_mixed(spec['n'], seed * 1000 + spec['i'], acc)
        return acc
    run_entry(spec['entry'], spec['n'], seed * 1000 + spec['i'], acc, tier)
    return acc
