"""Shared generator: conformant documents with 0..k injected faults, multi-set/group/interchange shapes."""
from .. import core, mapmodel as mm, docgen, faults
from . import c02


def entries(exclude_ack=True):
    out = []
    for e in c02.entries():
        if e['file'].startswith(('830', '841')):
            continue
        if exclude_ack and e['fic'] == 'FA':
            continue
        out.append(e)
    return out


def set_bounds(doc):
    """[(index of ST, index of SE)] of the transaction sets of the document"""
    out = []
    a = None
    for i, s_ in enumerate(doc.segs):
        if s_.id == 'ST':
            a = i
        elif s_.id == 'SE' and a is not None:
            out.append((a, i))
            a = None
    return out


def clone_set(doc, k, base):
    """insert a copy of the k-th set right after it (same group): sibling sets with identical structure"""
    import copy
    a, b = set_bounds(doc)[k]
    off = max([inst for s_ in doc.segs for (_n, inst) in s_.chain] or [0]) + 1
    new = []
    for s_ in doc.segs[a:b + 1]:
        c = docgen.GSeg(s_.node, copy.deepcopy(s_.vals), [(ln, inst + off if d >= 2 else inst) for d, (ln, inst) in enumerate(s_.chain)])
        c.tags = set(s_.tags)
        new.append(c)
    doc.segs[b + 1:b + 1] = new
    docgen.fixup(doc, base)


def _inject_in(doc, ch, kinds, lo, hi, at=None, exclude=()):
    """one catalogue fault whose location lies in segs[lo+1:hi] (or exactly at segment `at`) -> (doc, exp) or None"""
    avail = []
    for k in kinds:
        if k in exclude:
            continue
        c = [x for x in faults.candidates(doc, k) if (x[0] == at if at is not None else lo < x[0] < hi)]
        if c:
            avail.append((k, c))
    if not avail:
        return None
    kind, cands = avail[ch.integer(0, len(avail) - 1)]
    return faults.inject(doc, kind, cands[ch.integer(0, len(cands) - 1)], ch.seed())


def build(entry, ch, acc, max_faults=4, shapes=None, flavor='plain', avoid='~*:^', kinds=None, hostile_values=None, envelope=0.0, malformed=0.0, big=0.0, keep_empty_tail=0.0,
          by_set=0.0, twin_sets=0.0, cluster=0.0, respell_twin=0.0):
    """-> (doc, [expectations]) or None

    by_set: probability that faults are placed by first drawing which sets are faulty (each with p=.5) and then one fault inside each;
    twin_sets: probability that one set is cloned and the two copies get different faults at the same segment;
    cluster: probability that two or three element-level faults of ONE kind go into one segment, different components of one
    composite first; respell_twin: probability that one set is cloned and the composites of the copy are re-spelled with trailing
    empty components (same canonical segment, different source text), no fault."""
    shape = ch.choice(shapes or [(1, 1, 1), (1, 1, 2), (1, 1, 3), (1, 2, 1), (1, 2, 2), (2, 1, 1), (2, 2, 1), (1, 3, 2)])
    kw = dict(p_seg=ch.choice([.2, .4, .7]), p_loop=ch.choice([.15, .3]), max_rep=2, shape=shape, max_segs=250)
    if big and ch.chance(big):
        # documents longer than one read buffer of the reader (8 KiB)
        kw.update(p_seg=.8, p_loop=.5, max_rep=3, max_segs=600, shape=(1, 1, ch.choice([2, 3])))
    doc = None
    for attempt in range(5):
        try:
            vals_ = docgen.Values(avoid, flavor, entry['icvn'])
            vals_.keep_empty_tail = keep_empty_tail
            doc = docgen.build_doc(entry, ch, values=vals_, **kw)
            break
        except docgen.GenFail:
            kw = dict(kw, p_loop=kw['p_loop'] * .4)
            if attempt >= 2:
                kw['p_loop'] = 0.0
    if doc is None:
        return None
    doc.avoid = avoid       # characters that are delimiters somewhere in the case: no injected value may hold them
    if acc is not None:
        c02.strip_known(doc, acc)
    nf = ch.choice([0, 1, 1, 2, 3, max_faults])
    exps = []
    kinds = kinds or faults.KINDS
    if hostile_values and ch.chance(.4):
        # envelope values are echoed too (ISA06/08, GS02/03, ST02 -> ISA, GS, AK2): characters that are delimiters of the
        # acknowledgement but plain data under the source's delimiters
        cs_ = [x for x in ':*~^' if x not in avoid] or ['Z']
        for s_ in doc.segs:
            c_ = cs_[ch.integer(0, len(cs_) - 1)]
            if s_.id == 'ISA' and ch.chance(.5):
                k_ = ch.choice([5, 7])
                s_.vals[k_] = [('S' + c_ + 'NDR').ljust(15)]
            elif s_.id == 'GS' and ch.chance(.6):
                k_ = ch.choice([1, 2])
                s_.vals[k_] = ['AA' + c_ + 'A']
            elif s_.id == 'ST' and ch.chance(.5):
                v_ = s_.vals[1][0][:3] + c_ + 'A'
                s_.vals[1] = [v_]
                for t_ in doc.segs[doc.segs.index(s_):]:
                    if t_.id == 'SE':
                        t_.vals[1] = [v_]
                        break
        exps.append({'kind': 'hostile-envelope-values', 'hostile': True})
    if twin_sets and ch.chance(twin_sets) and set_bounds(doc):
        # sibling sets of identical structure with different defects at the same place
        nf = 0
        k = ch.integer(0, len(set_bounds(doc)) - 1)
        clone_set(doc, k, ch.seed() % 10 ** 9)
        (a1, b1), (a2, b2) = set_bounds(doc)[k], set_bounds(doc)[k + 1]
        if b1 - a1 > 1:
            r = ch.integer(1, b1 - a1 - 1)
            plan = [kinds, kinds]                 # kinds allowed in the later / the earlier copy
            if ch.chance(.6):
                # prefer a place where one copy can get a segment-level and the other an element-level defect
                sites = {}
                for k_ in kinds:
                    for x in faults.candidates(doc, k_):
                        if a1 < x[0] < b1:
                            sites.setdefault(x[0] - a1, set()).add(k_)
                mixed = sorted(q for q, ks in sites.items() if ks & set(faults.SEGMENT_KINDS) and ks & set(faults.ELEMENT_KINDS))
                if mixed:
                    r = mixed[ch.integer(0, len(mixed) - 1)]
                    sk = [k_ for k_ in kinds if k_ in faults.SEGMENT_KINDS and k_ in sites[r]]
                    if 'unknown-segment' in sk and len(sk) > 1 and ch.chance(.7):
                        sk.remove('unknown-segment')      # possible everywhere: it would crowd out the other kinds
                    ek = [k_ for k_ in kinds if k_ in faults.ELEMENT_KINDS]
                    plan = [ek, sk] if ch.chance(.6) else [sk, ek]
            used = []
            if plan[0] is not plan[1] and plan[1] and plan[1][0] in faults.SEGMENT_KINDS and ch.chance(.7):
                # the earlier copy first; the later copy then gets its element-level defect at the set position at which the
                # segment-level error of the earlier copy is reported (same segment id there when a segment was removed)
                res = _inject_in(doc, ch, plan[1], a1, b1, at=a1 + r)
                if res is not None:
                    doc, exp = res
                    exp['twin'] = True
                    exps.append(exp)
                    q = exp.get('seg_index', a1 + r) - a1
                    a2, b2 = set_bounds(doc)[k + 1]
                    res = _inject_in(doc, ch, plan[0], a2, b2, at=a2 + q) or _inject_in(doc, ch, plan[0], a2, b2, at=a2 + r)
                    if res is not None:
                        doc, exp = res
                        exp['twin'] = True
                        exps.append(exp)
                plan = None
            # the later set first: its indexes do not move when the earlier set changes length
            for (a_, b_), ks in zip([(a2, b2), (a1, b1)], plan or []):
                res = _inject_in(doc, ch, ks, a_, b_, at=a_ + r, exclude=used)
                if res is not None:
                    doc, exp = res
                    exp['twin'] = True
                    used.append(exp['kind'])
                    exps.append(exp)
    elif respell_twin and ch.chance(respell_twin) and set_bounds(doc):
        k = ch.integer(0, len(set_bounds(doc)) - 1)
        clone_set(doc, k, ch.seed() % 10 ** 9)
        a2, b2 = set_bounds(doc)[k + 1]
        a1, b1 = set_bounds(doc)[k]
        which = (a2, b2) if ch.chance(.6) else (a1, b1)
        n_ = 0
        for s_ in doc.segs[which[0] + 1:which[1]]:
            for ei, c in enumerate(s_.node.children):
                if c.kind == 'comp' and ei < len(s_.vals) and any(s_.vals[ei]) and len(s_.vals[ei]) < len(c.children) and ch.chance(.6):
                    s_.vals[ei] = list(s_.vals[ei]) + [''] * ch.integer(1, len(c.children) - len(s_.vals[ei]))
                    n_ += 1
        if n_:
            exps.append({'kind': 'respelled-twin', 'respell': True})
    elif cluster and ch.chance(cluster):
        nf = ch.choice([0, 0, 1])
        for kind in [ch.choice(['too-long', 'wrong-char-class', 'too-short', 'control-char', 'not-in-code-list'])]:
            by_seg = {}
            for c in faults.candidates(doc, kind):
                by_seg.setdefault(c[0], []).append(c)
            # segments in which one composite offers two places first, then any segment offering two
            def same_comp(cs):
                seen = {}
                for c in cs:
                    if c[2] is not None:
                        seen.setdefault(c[1], []).append(c)
                return [v for v in seen.values() if len(v) >= 2]
            best = [(i, same_comp(cs)) for i, cs in sorted(by_seg.items()) if same_comp(cs)]
            if best and ch.chance(.8):
                i, groups = best[ch.integer(0, len(best) - 1)]
                locs = groups[ch.integer(0, len(groups) - 1)][:3]
            else:
                multi = [cs for i, cs in sorted(by_seg.items()) if len(cs) >= 2]
                if not multi:
                    break
                locs = multi[ch.integer(0, len(multi) - 1)][:ch.choice([2, 3])]
            for loc in locs:
                res = faults.inject(doc, kind, loc, ch.seed())
                if res is not None:
                    doc, exp = res
                    exp['cluster'] = True
                    exps.append(exp)
    elif by_set and ch.chance(by_set) and len(set_bounds(doc)) > 1:
        nf = 0
        nsets = len(set_bounds(doc))
        mask = [ch.chance(.5) for _ in range(nsets)]
        for k in reversed(range(nsets)):
            if not mask[k]:
                continue
            a_, b_ = set_bounds(doc)[k]
            res = _inject_in(doc, ch, kinds, a_, b_)
            if res is not None:
                doc, exp = res
                exp['by_set'] = True
                exps.append(exp)
    for j in range(nf):
        avail = [(k, faults.candidates(doc, k)) for k in kinds]
        avail = [(k, c) for k, c in avail if c]
        if not avail:
            break
        kind, cands = avail[ch.integer(0, len(avail) - 1)]
        loc = cands[ch.integer(0, len(cands) - 1)]
        res = faults.inject(doc, kind, loc, ch.seed())
        if res is None:
            continue
        doc, exp = res
        if hostile_values and exp.get('value') and exp['kind'] in ('too-long', 'not-in-code-list', 'wrong-char-class', 'extra-element'):
            # make the offending (echoed) value carry characters that are delimiters of the acknowledgement
            s = doc.segs[exp['seg_index']]
            ei = exp['ele'] - 1
            ci = (exp['sub'] - 1) if exp.get('sub') else 0
            if ei < len(s.vals) and ci < len(s.vals[ei]):
                hv = ch.choice(hostile_values)
                s.vals[ei][ci] = (s.vals[ei][ci] + hv) if exp['kind'] != 'not-in-code-list' else hv
                exp['value'] = s.vals[ei][ci]
                exp['hostile'] = True
        if hostile_values and exp.get('kind') == 'unknown-segment' and ch.chance(.6):
            # the identifier of an unknown segment is echoed too (AK301/IK301): give it a character that is a delimiter of the
            # acknowledgement but plain data under the source's delimiters
            s = doc.segs[exp['seg_index']]
            if isinstance(s, faults._Fake):
                c = ch.choice([x for x in ':*~^' if x not in avoid] or ['Z'])
                s._id = 'Z' + c + 'Z'
                exp['seg_id'] = s._id
                exp['hostile'] = True
        exps.append(exp)
    if malformed and ch.chance(malformed):
        cands = faults.candidates(doc, 'junk-segment')
        if cands:
            res = faults.inject(doc, 'junk-segment', cands[ch.integer(0, len(cands) - 1)], ch.seed())
            if res is not None:
                doc, exp = res
                exps.append(exp)
    if envelope and ch.chance(envelope):
        for _ in range(ch.choice([1, 1, 2, 3, 5])):
            k = envelope_fault(doc, ch, reencoded=len(set(avoid)) > 4)
            if k:
                exps.append({'kind': 'env:' + k})
    if envelope and ch.chance(.07):
        # a spelling defect (blank in front of the identifier, separators after the last element) on the first body segment of
        # a set - BHT, BPR, BGN ...: the segment at which the validator may switch maps and handles the reader's errors itself
        first = [doc.segs[i_ + 1] for i_, s_ in enumerate(doc.segs[:-1]) if s_.id == 'ST' and doc.segs[i_ + 1].id not in ('SE', 'ST', 'GE', 'IEA')
                 and getattr(doc.segs[i_ + 1], 'raw_pattern', None) is None]
        if first:
            s_ = first[ch.integer(0, len(first) - 1)]
            s_.tags.add(ch.choice(['lead-blank', 'trail-sep']))
            exps.append({'kind': 'env:spelling'})
    return doc, exps


def build_mixed(ch, acc, with_ack_groups=True, **kw):
    """One interchange whose 2..4 functional groups come from two or three maps of one version (acknowledgement groups
    included), each part built - and damaged - on its own by build().  -> (doc, [expectations]) or None"""
    kw = {k: v for k, v in kw.items() if k != 'shapes'}      # every part is one group of one or two sets
    icvn = ch.choice(['00401', '00401', '00501'])
    pool = c02.mixed_pool(icvn)
    if with_ack_groups:
        pool = pool + [e for e in entries(exclude_ack=False) if e['icvn'] == icvn and e['fic'] == 'FA' and e['vriic'] in ('004010', '005010X231')]
    picks = [pool[ch.integer(0, len(pool) - 1)] for _ in range(ch.choice([2, 2, 3]))]
    seq = picks[:2] + [picks[ch.integer(0, len(picks) - 1)] for _ in range(ch.choice([0, 1, 1, 2]))]
    if seq[-1]['fic'] == 'FA':
        # pyx12 decides from the last group whether an acknowledgement is written at all (none for acknowledgements): keep a
        # transaction group last so that there is an acknowledgement to look at
        non = [e for e in seq if e['fic'] != 'FA']
        if not non:
            return None
        seq = [e for e in seq if e is not non[-1]] + [non[-1]]
    docs = []
    exps = []
    for e in seq:
        res = build(e, ch, acc, shapes=[(1, 1, 1), (1, 1, 2)], **kw)
        if res is None:
            return None
        docs.append(res[0])
        exps += res[1]
    try:
        doc = docgen.merge_docs(docs)
    except docgen.GenFail:
        return None
    exps.append({'kind': 'mixed-maps', 'mixed': True})
    return doc, exps


ENVELOPE_FAULTS = ['se-count', 'se-id', 'ge-count', 'ge-id', 'iea-count', 'iea-id', 'gs-date', 'gs-time', 'st-dup', 'gs-dup', 'gs-code',
                   'se-count-alpha', 'st-id-long', 'se-count', 'st-dup', 'st-many-codes', 'st-many-codes', 'st-many-codes', 'drop-trailer', 'st-dup-far', 'gs-dup-far', 'trailer-and-neighbour', 'trailer-and-neighbour', 'envelope-extra-element', 'envelope-extra-element', 'stray-after-trailer', 'stray-after-trailer', 'spelling', 'spelling', 'spelling', 'header-cut-short', 'header-cut-short', 'count-with-components', 'count-with-components', 'empty-group', 'empty-group', 'empty-interchange', 'empty-interchange', 'bad-ta1-after-ge', 'bad-ta1-after-ge', 'isa-field-width', 'isa-field-width']


def envelope_fault(doc, ch, reencoded=False):
    """Damage one envelope field after bookkeeping (no recount). -> kind or None"""
    try:
        return _envelope_fault(doc, ch, reencoded)
    except (AttributeError, IndexError, ValueError):
        return None         # the chosen field no longer exists (an earlier fault removed its segment)


def _envelope_fault(doc, ch, reencoded=False):
    kind = ch.choice(ENVELOPE_FAULTS)
    idx = lambda sid: [i for i, s in enumerate(doc.segs) if s.id == sid]

    def pick(sid):
        c = idx(sid)
        return doc.segs[c[ch.integer(0, len(c) - 1)]] if c else None
    if kind == 'se-count':
        s = pick('SE')
        try:
            s.vals[0] = [str(int(s.vals[0][0]) + ch.choice([1, 2, -1]))]
        except ValueError:
            s.vals[0] = ['77']
    elif kind == 'st-many-codes':
        # as many different set-level complaints as possible on one set: duplicate ST02, SE02 mismatch and over-long,
        # SE01 not numeric (count wrong + invalid character)
        c = idx('ST')
        for a_, b_ in zip(c, c[1:]):
            if 'GS' not in [x.id for x in doc.segs[a_:b_]]:
                doc.segs[b_].vals[1] = list(doc.segs[a_].vals[1])
                for k_, x in enumerate(doc.segs[b_:]):
                    if x.id == 'SE':
                        x.vals[0] = ['X1']
                        x.vals[1] = [doc.segs[a_].vals[1][0] + '999999X']
                        if k_ > 1 and ch.chance(.6):
                            # ... and an error inside the same set (surplus elements on one of its body segments)
                            body = doc.segs[b_ + 1 + ch.integer(0, k_ - 2)]
                            body.vals = list(body.vals) + [['X']] * 30
                        break
                return kind
        return None
    elif kind == 'count-with-components':
        # a count that wrongly carries components: however its text looks under the file's component separator ('1_0', '+1'),
        # it is no number
        s = pick(ch.choice(['GE', 'GE', 'IEA', 'SE']))
        s.vals[0] = ch.choice([['1', '0'], ['', '1'], [s.vals[0][0], '']])
    elif kind == 'spelling':
        # a blank in front of a segment identifier and / or separators after its last element, on any segment but the ISA
        c = [s_ for s_ in doc.segs if s_.id != 'ISA' and getattr(s_, 'raw_pattern', None) is None]
        if not c:
            return None
        env = [s_ for s_ in c if s_.id in ('GS', 'ST', 'SE', 'GE', 'IEA')]
        # ... often on an envelope segment, or on the body segment right after an ST / right before an SE (BHT, BPR, BGN ...: where
        # the validator switches maps and tables and handles the reader's errors itself)
        edge = [s_ for i_, s_ in enumerate(doc.segs) if s_ in c and s_.id not in ('GS', 'ST', 'SE', 'GE', 'IEA', 'TA1') and
                ((i_ > 0 and doc.segs[i_ - 1].id == 'ST') or (i_ + 1 < len(doc.segs) and doc.segs[i_ + 1].id == 'SE'))]
        r_ = ch.integer(0, 9)
        pool = env if env and r_ < 4 else edge if edge and r_ < 7 else c
        s_ = pool[ch.integer(0, len(pool) - 1)]
        what = ch.choice(['lead-blank', 'trail-sep', 'both'])
        if what in ('lead-blank', 'both'):
            s_.tags.add('lead-blank')
        if what in ('trail-sep', 'both'):
            s_.tags.add('trail-sep')
    elif kind == 'header-cut-short':
        # a header that ends before its control number (ST*837, GS*HC*A*B*20040101*1230)
        s_ = pick(ch.choice(['ST', 'ST', 'GS']))
        s_.vals = list(s_.vals)[:1] if s_.id == 'ST' else list(s_.vals)[:5]
    elif kind == 'envelope-extra-element':
        # one element more than the header / trailer defines
        s_ = pick(ch.choice(['ST', 'SE', 'ST', 'SE', 'GS', 'GE', 'IEA']))
        s_.vals = list(s_.vals) + [['X']]
    elif kind == 'stray-after-trailer':
        # a body segment between SE and the next ST / GE, or between GE and the next GS / IEA
        c = [i for i, s_ in enumerate(doc.segs) if s_.id in ('SE', 'SE', 'GE')]
        if not c:
            return None
        i = c[ch.integer(0, len(c) - 1)]
        body = [s_ for s_ in doc.segs if s_.id not in ('ISA', 'GS', 'ST', 'SE', 'GE', 'IEA', 'HL', 'LX')]
        if not body:
            return None
        src = body[ch.integer(0, len(body) - 1)]
        doc.segs.insert(i + 1, docgen.GSeg(src.node, [list(x) for x in src.vals], list(doc.segs[i].chain)))
    elif kind == 'empty-group':
        # a functional group with no transaction set in it (GS directly followed by GE*0), after a group that is in order;
        # the interchange counts it
        c = [i for i, s_ in enumerate(doc.segs) if s_.id == 'GE']
        if not c:
            return None
        i = c[ch.integer(0, len(c) - 1)]
        g = [j for j in range(i) if doc.segs[j].id == 'GS']
        if not g:
            return None
        gs, ge = doc.segs[g[-1]], doc.segs[i]
        ctl = '9' + (gs.vals[5][0] if len(gs.vals) > 5 and gs.vals[5][0] else '1')
        ngs = docgen.GSeg(gs.node, [list(x) for x in gs.vals], list(gs.chain))
        nge = docgen.GSeg(ge.node, [list(x) for x in ge.vals], list(ge.chain))
        if len(ngs.vals) > 5 and len(nge.vals) > 1:
            ngs.vals[5] = [ctl[:9]]
            nge.vals[0] = ['0']
            nge.vals[1] = [ctl[:9]]
            doc.segs[i + 1:i + 1] = [ngs, nge]
            for s_ in doc.segs[i + 3:]:
                if s_.id == 'IEA':
                    try:
                        s_.vals[0] = [str(int(s_.vals[0][0]) + 1)]
                    except ValueError:
                        pass
                    break
    elif kind == 'bad-ta1-after-ge':
        # an interchange acknowledgement segment after the last group (where the control maps allow it), with an impossible
        # time: its error belongs to no transaction set
        ge = [i for i, s_ in enumerate(doc.segs) if s_.id == 'GE']
        if not ge or ge[-1] + 1 >= len(doc.segs) or doc.segs[ge[-1] + 1].id != 'IEA':
            return None
        isa = [s_ for s_ in doc.segs if s_.id == 'ISA']
        ctl = isa[-1].vals[12][0] if isa and len(isa[-1].vals) > 12 else '000000001'
        doc.segs.insert(ge[-1] + 1, faults._Fake('TA1', [[ctl], ['040101'], ['2560'], ['A'], ['000']], doc.segs[ge[-1]]))
    elif kind == 'empty-interchange':
        # a last interchange without any functional group (ISA directly followed by IEA*0, or holding a TA1 only)
        isa = [s_ for s_ in doc.segs if s_.id == 'ISA']
        iea = [s_ for s_ in doc.segs if s_.id == 'IEA']
        if not isa or not iea or len(isa[-1].vals) < 13:
            return None
        ctl = '%09d' % ((int(isa[-1].vals[12][0]) + 1) % 10 ** 9) if isa[-1].vals[12][0].isdigit() else '000000077'
        nisa = docgen.GSeg(isa[-1].node, [list(x) for x in isa[-1].vals], list(isa[-1].chain))
        niea = docgen.GSeg(iea[-1].node, [list(x) for x in iea[-1].vals], list(iea[-1].chain))
        nisa.vals[12] = [ctl]
        if ch.chance(.5) and len(nisa.vals) > 11 and not reencoded:
            # ... of the other version: the acknowledgement is still the one of the last group
            if nisa.vals[11] == ['00401']:
                # (not where the text is re-encoded: the separators of one version are data of the other - ^ as component
                # separator of a 00401 header, the repetition separator under the basic character set -, and the outcome would
                # depend on them, which C12's statement excludes)
                nisa.vals[11], nisa.vals[10] = ['00501'], ['^']
            else:
                nisa.vals[11], nisa.vals[10] = ['00401'], ['U']
        niea.vals[0] = ['0']
        if len(niea.vals) > 1:
            niea.vals[1] = [ctl]
        doc.segs.extend([nisa, niea])
    elif kind == 'isa-field-width':
        # fixed-width fields of the last header wider than they should be: the acknowledgement copies sender and receiver from
        # that header. A later header is read by its separators, so any width will do; on the leading one the line must keep
        # its 106 characters, so what one field gains another loses (trailing blanks of the id beside it)
        isa = [i for i, s_ in enumerate(doc.segs) if s_.id == 'ISA']
        if not isa or len(doc.segs[isa[-1]].vals) < 16:
            return None
        v = doc.segs[isa[-1]].vals
        k = ch.integer(1, 3)
        a_, b_ = ch.choice([(5, 7), (7, 5)])
        if isa[-1] == 0:
            if not v[b_][0].endswith(' ' * k) or len(v[b_][0]) <= k:
                return None
            v[b_] = [v[b_][0][:-k]]
            v[a_] = [v[a_][0].rstrip(' ') + 'W' * (len(v[a_][0]) - len(v[a_][0].rstrip(' ')) + k)]
        else:
            which = ch.choice([a_, a_, 4, 6, 14])
            v[which] = [v[which][0].rstrip(' ') + 'W' * (len(v[which][0]) - len(v[which][0].rstrip(' ')) + k)]
    elif kind == 'trailer-and-neighbour':
        # an element error on a trailer and one at the same element position of the segment right before it
        c = [i for i, s_ in enumerate(doc.segs) if s_.id == 'SE' and i > 0 and doc.segs[i - 1].id not in ('ST', 'ISA', 'GS')]
        if not c:
            return None
        i = c[ch.integer(0, len(c) - 1)]
        se, prev = doc.segs[i], doc.segs[i - 1]
        pos = ch.choice([0, 1])
        if pos == 0:
            se.vals[0] = ['X1']
        else:
            se.vals[1] = [se.vals[1][0] + '999999X']
        while len(prev.vals) <= pos:
            prev.vals.append([''])
        prev.vals[pos] = ['Z' * 90]
    elif kind in ('st-dup-far', 'gs-dup-far'):
        # a control number re-used non-adjacently within its scope (0001 0002 0001)
        hid, tid, scope, pos = ('ST', 'SE', 'GS', 1) if kind == 'st-dup-far' else ('GS', 'GE', 'ISA', 5)
        c = idx(hid)
        for x in range(len(c)):
            for y in range(x + 2, len(c)):
                if scope not in [q.id for q in doc.segs[c[x]:c[y]]]:
                    doc.segs[c[y]].vals[pos] = list(doc.segs[c[x]].vals[pos])
                    for q in doc.segs[c[y]:]:
                        if q.id == tid:
                            q.vals[1] = list(doc.segs[c[x]].vals[pos])
                            break
                    return kind
        return None
    elif kind == 'drop-trailer':
        # a trailer missing in the middle of the file (the next header follows an unterminated set / group)
        c = [i for i, s_ in enumerate(doc.segs) if s_.id in ('SE', 'GE') and i < len(doc.segs) - 2]
        if not c:
            return None
        del doc.segs[c[ch.integer(0, len(c) - 1)]]
    elif kind == 'se-count-alpha':
        pick('SE').vals[0] = [ch.choice(['X1', 'A', '1.5', ''])]
    elif kind == 'st-id-long':
        c = idx('ST')
        st_ = doc.segs[c[ch.integer(0, len(c) - 1)]]
        st_.vals[1] = [st_.vals[1][0] + '999999']
        for x in doc.segs[doc.segs.index(st_):]:
            if x.id == 'SE':
                x.vals[1] = list(st_.vals[1])
                break
    elif kind == 'se-id':
        pick('SE').vals[1] = [ch.choice(['9999', '9999', 'ST.9', 'GS.9'])]
    elif kind == 'ge-count':
        s = pick('GE')
        s.vals[0] = [str(int(s.vals[0][0]) + 1) if s.vals[0][0].isdigit() else '9']
    elif kind == 'ge-id':
        # (a value that names another envelope segment: messages echo values)
        pick('GE').vals[1] = [ch.choice(['77', '77', '17GS', 'GS1.5', 'ISA7.'])]
    elif kind == 'iea-count':
        s = pick('IEA')
        s.vals[0] = [str(int(s.vals[0][0]) + 1) if s.vals[0][0].isdigit() else '9']
    elif kind == 'iea-id':
        pick('IEA').vals[1] = [ch.choice(['000000099', '000000099', 'ISA00009.', '00GS0009.'])]
    elif kind == 'gs-date':
        pick('GS').vals[3] = ['20041301']
    elif kind == 'gs-time':
        pick('GS').vals[4] = ['2560']
    elif kind == 'gs-code':
        pick('GS').vals[6] = ['Q']
    elif kind == 'st-dup':
        c = idx('ST')
        for a_, b_ in zip(c, c[1:]):
            if 'GS' not in [x.id for x in doc.segs[a_:b_]]:
                doc.segs[b_].vals[1] = list(doc.segs[a_].vals[1])
                for x in doc.segs[b_:]:
                    if x.id == 'SE':
                        x.vals[1] = list(doc.segs[a_].vals[1])
                        break
                return kind
        return None
    elif kind == 'gs-dup':
        c = idx('GS')
        for a_, b_ in zip(c, c[1:]):
            if 'ISA' not in [x.id for x in doc.segs[a_:b_]]:
                doc.segs[b_].vals[5] = list(doc.segs[a_].vals[5])
                for x in doc.segs[b_:]:
                    if x.id == 'GE':
                        x.vals[1] = list(doc.segs[a_].vals[5])
                        break
                return kind
        return None
    return kind


def tag_structural(case, out, untagged=('R1:reader-error-lost',)):
    """Failures on inputs whose set/group structure itself is broken are kept apart, in buckets of their own: a set or group left
    unterminated in mid-file, a body segment standing between two sets or after a group trailer."""
    fl = (case.get('meta') or {}).get('faults', [])
    for fault, tag in (('env:drop-trailer', 'unterminated-set-or-group'), ('env:stray-after-trailer', 'segment-outside-set'),
                       ('env:spelling', 'spelling-defect')):
        if fault in fl:
            out.failures = [(b_ if b_.startswith(untagged) else b_ + '[%s]' % tag, d_) for b_, d_ in out.failures]
            out.classes.append(tag)
            break           # one tag: the first that applies
    else:
        if out.failures and _orphan_trailer(case.get('text')):
            # a group, set or interchange trailer while no header of its kind is open (whatever produced it)
            out.failures = [(b_ if b_.startswith(untagged) else b_ + '[orphan-trailer]', d_) for b_, d_ in out.failures]
            out.classes.append('orphan-trailer')
    return out


def _orphan_trailer(text):
    from .. import x12ref
    if not text:
        return False
    try:
        _, segs = x12ref.tokenize(text)
    except Exception:
        return False
    open_ = []
    for s_ in segs:
        if s_.id in ('ISA', 'GS', 'ST'):
            open_.append(s_.id)
        elif s_.id in ('SE', 'GE', 'IEA'):
            want = {'SE': 'ST', 'GE': 'GS', 'IEA': 'ISA'}[s_.id]
            if want not in open_:
                return True
            while open_.pop() != want:
                pass
    return False


def meta_of(doc, exps):
    body = [s for s in doc.segs if s.id not in ('ISA', 'GS', 'ST', 'SE', 'GE', 'IEA')]
    return {'file': doc.entry['file'], 'icvn': doc.icvn, 'vriic': doc.entry['vriic'], 'fic': doc.entry['fic'],
            'faults': [e['kind'] for e in exps], 'nsets': sum(1 for s in doc.segs if s.id == 'ST'),
            'ngroups': sum(1 for s in doc.segs if s.id == 'GS'), 'nisa': sum(1 for s in doc.segs if s.id == 'ISA'),
            'body': len(body), 'hostile': any(e.get('hostile') for e in exps),
            'placement': 'twin-sets' if any(e.get('twin') for e in exps) else 'by-set' if any(e.get('by_set') for e in exps)
            else 'mixed-maps' if any(e.get('mixed') for e in exps) else 'cluster' if any(e.get('cluster') for e in exps) else 'respelled-twin' if any(e.get('respell') for e in exps) else 'free'}
