"""C07  Validation is total: any input yields a verdict or a documented refusal."""
import io
import re

from .. import core, docgen, observe, x12ref, mapmodel as mm
from . import genfaulty, c02

PID = 'C07'
RULE = ('Three entry points - x12n_document under every subset of {acknowledgement, HTML, XML} and charset B/E; X12Reader iteration + '
        'cleanup(); X12ContextReader.iter_segments(None | a loop id of the map) - on (a) arbitrary text and ISA near-misses (length '
        '0..120, bad version, 15/17 elements), (b) 1..4 structural mutations of generated documents of every map and of the '
        'repository fixtures: delete, duplicate, swap, move, truncate at any character, retag, orphan/duplicate trailers, '
        'non-numeric and empty counts, empty/blank/separator-only segments, no or extra elements and components, 20 KiB segment, '
        'second ISA mid-file, unknown GS08/ISA12, leading blank, trailing separators, control-character delimiters. Oracle: outcome '
        'is a bool, or pyx12.errors.X12Error, or EngineError whose message starts "Map not found"; anything else is bucketed by '
        '(entry point, exception type, innermost pyx12 file:function). Non-trivial = the input got past the GS (>=1 body segment '
        'reached the walker); distinct by digest of (text, sinks, charset, loop id). Thorough adds 8 atheris/libFuzzer campaigns of 6000 runs '
        '(bytes decoded as an edit script over fixture documents, same oracle inside the target).')
ASSUMPTIONS = ['X12Error is accepted as the documented refusal wherever it is raised', 'each case runs under a 60 s watchdog; a timeout is inconclusive, not a violation']

SINKS = [(a, h, x) for a in (0, 1) for h in (0, 1) for x in (0, 1)]


def allowed(exc):
    import pyx12.errors
    if isinstance(exc, pyx12.errors.X12Error):
        return True
    if isinstance(exc, pyx12.errors.EngineError) and str(exc).startswith('Map not found'):
        # the documented error of an interchange whose version/type has no map: when the index does list a map for this
        # (ISA12, GS01, GS08) - whatever BHT02 says - the error is not that one
        m = re.search(r'icvn=(.*?), fic=(.*?), vriic=(.*?)(?:, tspc=.*)?$', str(exc))
        if m is not None and 'tspc=' in str(exc):
            from .. import mapmodel
            if any((e.get('icvn'), e.get('fic'), e.get('vriic')) == (m.group(1), m.group(2), m.group(3)) for e in mapmodel.index()):
                return False
        return True
    return False


def check_case(case):
    import pyx12.x12file
    import pyx12.x12context
    import pyx12.params
    import pyx12.error_handler
    out = core.Outcome()
    text = case['text']
    sinks = case.get('sinks', [1, 0, 0])
    cs = case.get('charset', 'E')
    meta = case.get('meta', {})
    out.classes = ['sinks:%d%d%d' % tuple(sinks), 'charset:' + cs] + ['op:' + o for o in meta.get('ops', [])[:4]]
    out.key = [text, sinks, cs, case.get('loop_id')]
    # 1. validator
    o = observe.run_validator(text, ack=bool(sinks[0]), html=bool(sinks[1]), xml=bool(sinks[2]), charset=cs)
    if o.exc is not None:
        if isinstance(o.exc, core.Inconclusive):
            raise o.exc
        if not allowed(o.exc):
            sk = ''.join(k for k, v in zip('ahx', sinks) if v) or 'none'
            # the sink only matters for the buckets that live in a sink module
            b = core.exc_bucket(o.exc, 'validate')
            out.fail(b, 'sinks=%s charset=%s: %s' % (sk, cs, core.exc_detail(o.exc)))
    elif o.verdict not in (True, False):
        out.fail('validate:non-bool', repr(o.verdict))
    walked = bool(o.tree is not None and any(True for i in getattr(o.tree, 'children', []) for g in i.children for s in g.children))
    out.nontrivial = walked
    # 2. plain reader
    try:
        rd = pyx12.x12file.X12Reader(io.StringIO(text))
        for seg in rd:
            rd.pop_errors()
        rd.cleanup()
        rd.pop_errors()
    except core.Inconclusive:
        raise
    except Exception as e:
        if not allowed(e):
            out.fail(core.exc_bucket(e, 'reader'), core.exc_detail(e))
    # 3. context reader
    for lid in [None, case.get('loop_id')] if case.get('loop_id') else [None]:
        try:
            p = pyx12.params.params()
            p.set('charset', cs)
            cr = pyx12.x12context.X12ContextReader(p, pyx12.error_handler.errh_null(), io.StringIO(text))
            n = 0
            for node in cr.iter_segments(lid):
                for s in node.iterate_segments():
                    n += 1
        except core.Inconclusive:
            raise
        except Exception as e:
            if not allowed(e):
                out.fail(core.exc_bucket(e, 'context'), 'loop_id=%r: %s' % (lid, core.exc_detail(e)))
    return out


# ------------------------------------------------------------------ mutation

OPS = ['delete', 'duplicate', 'swap', 'move', 'truncate', 'retag', 'orphan-trailer', 'dup-trailer', 'bad-count', 'empty-segment',
       'blank-segment', 'sep-only-segment', 'no-elements', 'extra-elements', 'extra-components', 'long-segment', 'second-isa',
       'unknown-gs08', 'bad-isa12', 'leading-blank', 'trailing-seps', 'bad-bht02', 'bad-bht02', 'bad-bht02', 'bad-hl', 'lowercase-id', 'isa-15-elements', 'delete-header', 'garble-element', 'garble-element', 'bad-lx', 'extra-elements', 'empty-first-component', 'empty-first-component', 'trailer-before-header', 'append-orphan-envelope', 'pile-up', 'pile-up', 'pile-up', 'foreign-st01', 'foreign-st01']


def mutate(text, ch, nops):
    """-> (mutated text, [ops]) ; works on the raw segment strings of the source"""
    d = x12ref.delimiters(text)
    term, ele, sub = d['term'], d['ele'], d['sub']
    segs = [s for s in (x.lstrip('\r\n') for x in text.split(term)) if s != '']
    ops = []
    truncate_at = None
    for _ in range(nops):
        op = ch.choice(OPS)
        n = len(segs)
        if n < 3:
            break
        i = ch.integer(1, n - 1)
        ops.append(op)
        if op == 'delete':
            del segs[i]
        elif op == 'duplicate':
            segs.insert(i, segs[i])
        elif op == 'swap' and i + 1 < n:
            segs[i], segs[i + 1] = segs[i + 1], segs[i]
        elif op == 'move':
            s = segs.pop(i)
            segs.insert(ch.integer(1, len(segs)), s)
        elif op == 'truncate':
            truncate_at = ch.integer(0, 999)
        elif op == 'retag':
            rest = segs[i].split(ele, 1)
            new = ch.choice(['NM1', 'REF', 'HL', 'CLM', 'LX', 'SE', 'GE', 'IEA', 'ST', 'GS', 'BHT', 'DTP', 'SV1', 'ZZZ', 'A', 'TOOLONG', '12', ''])
            segs[i] = new + (ele + rest[1] if len(rest) > 1 else '')
        elif op == 'orphan-trailer':
            segs.insert(i, ch.choice(['SE%s2%s0001', 'GE%s1%s1', 'IEA%s1%s000000001', 'SE', 'GE', 'IEA%s', 'LE%s2000']) .replace('%s', ele))
        elif op == 'dup-trailer':
            k = [j for j, s in enumerate(segs) if s.split(ele)[0] in ('SE', 'GE', 'IEA')]
            if k:
                j = k[ch.integer(0, len(k) - 1)]
                segs.insert(j, segs[j])
        elif op == 'bad-count':
            k = [j for j, s in enumerate(segs) if s.split(ele)[0] in ('SE', 'GE', 'IEA')]
            if k:
                j = k[ch.integer(0, len(k) - 1)]
                p = segs[j].split(ele)
                if len(p) > 1:
                    p[1] = ch.choice(['X', '', '-1', '1.5', '99999999999999999999', ' ', '9' * 4400, '-' + '1' * 5000])
                    segs[j] = ele.join(p)
        elif op == 'empty-segment':
            segs.insert(i, '')
        elif op == 'blank-segment':
            segs.insert(i, ch.choice([' ', '   ', ' ' + ele, '\t']))
        elif op == 'sep-only-segment':
            segs.insert(i, ch.choice([ele, ele * 3, sub, ele + sub + ele]))
        elif op == 'no-elements':
            segs[i] = segs[i].split(ele)[0]
        elif op == 'extra-elements':
            # ... up to and past 99, the last position a reference designator can name
            segs[i] = segs[i] + ele.join([''] + ['X'] * (ch.integer(1, 40) if ch.chance(.7) else ch.choice([97, 98, 99, 100, 101, 150])))
        elif op == 'extra-components':
            p = segs[i].split(ele)
            if len(p) > 1:
                j = ch.integer(1, len(p) - 1)
                p[j] = p[j] + sub + sub.join(['Y'] * ch.integer(1, 12))
                segs[i] = ele.join(p)
        elif op == 'long-segment':
            segs[i] = segs[i] + ele + 'L' * ch.choice([9000, 20000])
        elif op == 'second-isa':
            isa2 = segs[0] if ch.chance(.7) else segs[0][:60]
            if ch.chance(.5):
                # ... of another version than the leading header (supported or not)
                p = isa2.split(ele)
                if len(p) > 12:
                    p[12] = ch.choice(['00400', '00200', '00501', '00401', '00300', 'ABCDE'])
                    isa2 = ele.join(p)
            segs.insert(i, isa2)
        elif op == 'unknown-gs08':
            k = [j for j, s in enumerate(segs) if s.startswith('GS' + ele)]
            if k:
                p = segs[k[0]].split(ele)
                if len(p) > 8:
                    p[8] = ch.choice(['004010X999', '', '', '005010', 'X', '004010X098'])
                    if ch.chance(.4) and len(p) > 1:
                        p[1] = ch.choice(['ZZ', '', ''])
                    segs[k[0]] = ele.join(p)
        elif op == 'bad-isa12':
            p = segs[0].split(ele)
            if len(p) > 12:
                p[12] = ch.choice(['00400', '00200', 'ABCDE', '00501', '00401'])
                segs[0] = ele.join(p)
        elif op == 'leading-blank':
            segs[i] = ' ' * ch.integer(1, 2) + segs[i]
        elif op == 'trailing-seps':
            segs[i] = segs[i] + ele * ch.integer(1, 3)
        elif op == 'bad-bht02':
            k = [j for j, s in enumerate(segs) if s.startswith('BHT' + ele)]
            if k:
                p = segs[k[0]].split(ele)
                if len(p) > 2:
                    p[2] = ch.choice(['11', '13', '00', 'XX', '', '18', '36', '1'])
                    segs[k[0]] = ele.join(p)
        elif op == 'bad-hl':
            k = [j for j, s in enumerate(segs) if s.startswith('HL')]
            if k:
                j = k[ch.integer(0, len(k) - 1)]
                segs[j] = ch.choice(['HL', 'HL' + ele, 'HL' + ele + 'X', 'HL%s1%sX%s20%s1' .replace('%s', ele), 'HL%s%s%s' .replace('%s', ele),
                                     ele.join(['HL', '7' * 4500, '1', '20', '1']), ele.join(['HL', '2', '3' * 4400, '20', '1'])])
        elif op == 'foreign-st01':
            # a set the map of its group does not list: its ST finds no place, its SE does
            k = [j for j, s in enumerate(segs) if s.split(ele)[0] == 'ST']
            if k:
                j = k[ch.integer(0, len(k) - 1)]
                p = segs[j].split(ele)
                if len(p) > 1:
                    p[1] = ch.choice(['999', 'ZZZ', '830', '', '997', '27'])
                    segs[j] = ele.join(p)
        elif op == 'garble-element':
            p = segs[i].split(ele)
            if len(p) > 1:
                j = ch.integer(1, len(p) - 1)
                p[j] = ch.choice(['A', '', '1.0', '-', 'X' * 100, 'A\x07', ' ', '0', '-1', '99999999', 'é', sub, sub + 'A', 'A' + sub, '20041301', '2560'])
                segs[i] = ele.join(p)
        elif op == 'empty-first-component':
            # a composite that keeps its later components but loses the first one (often the qualifier)
            k = [(j, q) for j, sg in enumerate(segs) if j > 0 for q, e_ in enumerate(sg.split(ele)) if q > 0 and sub in e_ and not sg.startswith('ISA')]
            if k:
                j, q = k[ch.integer(0, len(k) - 1)]
                p = segs[j].split(ele)
                comps = p[q].split(sub)
                comps[0] = ''
                p[q] = sub.join(comps)
                segs[j] = ele.join(p)
        elif op == 'pile-up':
            # several defects on one element (a composite if the segment has one): errors that share a position
            withc = [j for j, sg in enumerate(segs) if j > 0 and sub in sg]
            if withc and ch.chance(.8):
                i = withc[ch.integer(0, len(withc) - 1)]
            p = segs[i].split(ele)
            if len(p) > 1 and not segs[i].startswith('ISA'):
                cand = [q for q in range(1, len(p)) if sub in p[q]] or list(range(1, len(p)))
                j = cand[ch.integer(0, len(cand) - 1)]
                comps = p[j].split(sub)
                ms = [ch.choice(['garble', 'extra', 'extra', 'empty-first', 'long', 'ctrl']) for _ in range(ch.integer(2, 4))]
                if ch.chance(.5):
                    ms[0] = 'extra'
                for m in ms:
                    q = ch.integer(0, len(comps) - 1)
                    if m == 'garble':
                        comps[q] = ch.choice(['', 'X' * 40, '-', 'é', ' ', '0', 'ZZZZ'])
                    elif m == 'extra':
                        comps += ['Y'] * ch.integer(1, 6)
                    elif m == 'empty-first':
                        comps[0] = ''
                    elif m == 'long':
                        comps[q] = comps[q] + 'Z' * 60
                    else:
                        comps[q] = comps[q] + '\x07'
                p[j] = sub.join(comps)
                segs[i] = ele.join(p)
        elif op == 'trailer-before-header':
            # a trailer moved in front of the header it closes (GE before its GS, SE before its ST, IEA before ... )
            pairs = {'GS': 'GE', 'ST': 'SE'}
            k = [j for j, sg in enumerate(segs) if sg.split(ele)[0] in pairs and j > 0]
            if k:
                j = k[ch.integer(0, len(k) - 1)]
                tr = pairs[segs[j].split(ele)[0]]
                later = [q for q in range(j + 1, len(segs)) if segs[q].split(ele)[0] == tr]
                if later:
                    t_ = segs.pop(later[0])
                    segs.insert(j, t_)
        elif op == 'append-orphan-envelope':
            tail = ch.choice([['GS%sHC%sA%sB%s20040101%s1230%s9%sX%s004010X098A1', 'IEA%s1%s000000001'],
                              ['ST%s837%s0009', 'IEA%s1%s000000001'], ['GS%sHC%sA%sB%s20040101%s1230%s9%sX%s004010X098A1', 'ST%s837%s0009', 'IEA%s0%s000000009'],
                              ['GE%s1%s1', 'GS%sHC%sA%sB%s20040101%s1230%s9%sX%s004010X098A1', 'IEA%s1%s000000001']])
            segs += [x.replace('%s', ele) for x in tail]
        elif op == 'bad-lx':
            k = [j for j, s in enumerate(segs) if s.startswith('LX')]
            if k:
                j = k[ch.integer(0, len(k) - 1)]
                segs[j] = ch.choice(['LX', 'LX' + ele, 'LX' + ele + 'A', 'LX' + ele + '1.0', 'LX' + ele + ' 1', 'LX' + ele + '01'])
        elif op == 'lowercase-id':
            segs[i] = segs[i][:1].lower() + segs[i][1:]
        elif op == 'isa-15-elements':
            p = segs[0].split(ele)
            segs[0] = ele.join(p[:-1]) if ch.chance(.5) else ele.join(p + ['X'])
        elif op == 'delete-header':
            k = [j for j, s in enumerate(segs) if s.split(ele)[0] in ('GS', 'ST') and j > 0]
            if k:
                del segs[k[ch.integer(0, len(k) - 1)]]
    eol = ch.choice(['\n', '', '\r\n'])
    out = ''.join(s + term + eol for s in segs)
    if truncate_at is not None:
        out = out[:max(0, len(out) * truncate_at // 1000)]
    return out, ops


def arbitrary_text(ch):
    kind = ch.choice(['empty', 'short', 'isa-prefix', 'isa-badver', 'garbage', 'isa-only', 'isa-then-junk', 'unicode', 'odd-delims', 'odd-delims'])
    isa = x12ref.make_isa()
    if kind == 'empty':
        return ''
    if kind == 'short':
        return isa[:ch.integer(0, 120)]
    if kind == 'isa-prefix':
        return isa[:ch.integer(100, 106)] + 'GS*HC*A*B*20040101*1230*1*X*004010X098A1~'
    if kind == 'isa-badver':
        return isa.replace('00401', ch.choice(['00400', '00301', '     ', '0040A'])) + 'GS*HC~'
    if kind == 'garbage':
        r = __import__('random').Random(ch.seed())
        return ''.join(chr(r.randint(0, 255)) for _ in range(ch.integer(0, 400)))
    if kind == 'odd-delims':
        # letters, digits or blanks as delimiters: a 106-character header that starts with ISA all the same
        e_, s_, t_ = ch.choice(['A', 'S', '0', ' ', 'Z', '*']), ch.choice(['1', 'P', ':', ' ', 'U']), ch.choice(['~', 'E', '0', '\n', ' '])
        try:
            hdr = x12ref.make_isa(ele=e_, sub=s_, term=t_)
        except AssertionError:
            hdr = isa
        body = 'GS*HC*A*B*20040101*1230*1*X*004010X098A1~ST*837*0001~BHT*0019*00*1*20040101*1230*CH~SE*3*0001~GE*1*1~IEA*1*000000001~'
        return hdr + body.replace('*', e_).replace(':', s_).replace('~', t_)
    if kind == 'isa-only':
        return isa
    if kind == 'unicode':
        return isa + 'GS*HC*€é*B*20040101*1230*1*X*004010X098A1~ST*837*0001~NM1*85*2*\U0001F600~SE*3*0001~GE*1*1~IEA*1*000000001~'
    r = __import__('random').Random(ch.seed())
    return isa + ''.join(r.choice('AB12*~:^ \n\r\t\x00\x07') for _ in range(ch.integer(1, 300)))


def loop_ids(fname):
    try:
        root = mm.load_map(fname)
    except Exception:
        return []
    return sorted({n.id for n in mm.walk(root) if n.kind == 'loop' and n.children and n.children[0].kind == 'seg'})


def run_entry(entry, n, seed, acc, tier):
    from hypothesis import strategies as st
    lids = loop_ids(entry['file'])

    @st.composite
    def case(draw):
        ch = docgen.HypChooser(draw)
        ctrl = ch.chance(.15)
        dl = ('\x1c', '\x1d', '\x1e', '\x1f') if ctrl else ('~', '*', ':', '^')
        if ch.chance(.1):
            # groups of different maps in one interchange (the validator changes maps on the way), then mutated like the others
            res = genfaulty.build_mixed(ch, acc, max_faults=2, avoid='~*:^', envelope=.15, malformed=.1)
        else:
            res = genfaulty.build(entry, ch, acc, max_faults=2, avoid='~*:^', envelope=.15, malformed=.1,
                                  shapes=[(1, 1, 1), (1, 1, 2), (1, 2, 1), (2, 1, 1)])
        if res is None:
            return {'skip': 'genfail'}
        doc, exps = res
        text = doc.text(term=dl[0], ele=dl[1], sub=dl[2], rep=dl[3])
        nops = ch.choice([0, 1, 1, 2, 3, 4])
        ops = []
        if nops:
            text, ops = mutate(text, ch, nops)
        return {'text': text, 'sinks': list(ch.choice(SINKS)), 'charset': ch.choice(['E', 'B']),
                'loop_id': ch.choice(lids) if lids and ch.chance(.7) else None,
                'meta': {'file': entry['file'], 'ops': ops, 'faults': [e['kind'] for e in exps], 'ctrl': ctrl}}

    def chk(c):
        if 'skip' in c:
            return core.Outcome(classes=['skipped:' + c['skip']])
        return check_case(c)

    core.hyp_collect(case(), chk, n, seed, acc, case_timeout=60)


def run_misc(n, seed, acc):
    from hypothesis import strategies as st
    from . import fixtures
    fx = fixtures.all_texts()

    @st.composite
    def case(draw):
        ch = docgen.HypChooser(draw)
        if ch.chance(.4) or not fx:
            text = arbitrary_text(ch)
            ops = ['arbitrary']
        else:
            name, base = fx[ch.integer(0, len(fx) - 1)]
            text, ops = mutate(base, ch, ch.choice([0, 1, 2, 3]))
            ops = ['fixture'] + ops
        return {'text': text, 'sinks': list(ch.choice(SINKS)), 'charset': ch.choice(['E', 'B']),
                'loop_id': ch.choice(['2000A', '2300', '2400', 'ST_LOOP', 'GS_LOOP', 'ISA_LOOP', '2000', '2100']) if ch.chance(.6) else None,
                'meta': {'file': 'misc', 'ops': ops}}

    core.hyp_collect(case(), check_case, n, seed, acc, case_timeout=60)


def run_atheris(spec, seed, acc):
    """coverage-guided campaign (thorough tier): libFuzzer mutates an edit script over fixture documents; the oracle is
    inside the target (vpx/fuzz_c07.py); a crash input is decoded again here and bucketed through check_case"""
    import glob
    import os
    import subprocess
    import sys
    import tempfile
    try:
        import atheris      # noqa: F401
    except Exception:
        acc.classes['atheris-not-installed'] += 1
        acc.evaluations += 1
        return
    from .. import fuzz_c07
    wd = tempfile.mkdtemp(prefix='vpx_c07_ath_')
    try:
        os.makedirs(os.path.join(wd, 'corpus'))
        cmd = [sys.executable, '-W', 'ignore', '-m', 'vpx.fuzz_c07', '-runs=%d' % spec['runs'], '-seed=%d' % (seed * 100 + spec['i']),
               '-max_len=256', '-timeout=60', '-artifact_prefix=' + wd + os.sep, os.path.join(wd, 'corpus')]
        p = subprocess.run(cmd, capture_output=True, text=True, cwd=core.VERIF, timeout=3000)
        m = re.search(r'Done (\d+) runs', p.stderr)
        done = int(m.group(1)) if m else 0
        acc.evaluations += done
        acc.classes['atheris-runs'] += done
        m = re.findall(r'cov: (\d+)', p.stderr)
        if m:
            acc.extra.setdefault('atheris_final_coverage', {})['shard-%d' % spec['i']] = int(m[-1])
        arts = glob.glob(os.path.join(wd, 'crash-*')) + glob.glob(os.path.join(wd, 'timeout-*'))
        st_ = fuzz_c07.seeds()
        for a in arts:
            data = open(a, 'rb').read()
            case = fuzz_c07.decode(data, st_)
            out = check_case(case)
            if not out.failures:
                acc.classes['atheris-crash-not-reproduced-in-fresh-state'] += 1
            acc.add(case, out)
        if p.returncode != 0 and not arts:
            acc.classes['atheris-abnormal-exit'] += 1
    finally:
        import shutil
        shutil.rmtree(wd, ignore_errors=True)


def shards(tier, seed):
    s = [{'kind': 'gen', 'entry': e, 'i': i, 'n': 700 if tier == 'thorough' else 40} for i, e in enumerate(genfaulty.entries(exclude_ack=False))]
    for k in range(4):
        s.append({'kind': 'misc', 'i': 100 + k, 'n': 1500 if tier == 'thorough' else 120})
    if tier == 'thorough':
        for k in range(8):
            s.append({'kind': 'atheris', 'i': 200 + k, 'runs': 6000})
    return s


def run_shard(spec, seed, tier):
    acc = core.Acc()
    if spec['kind'] == 'atheris':
        run_atheris(spec, seed, acc)
    elif spec['kind'] == 'misc':
        run_misc(spec['n'], seed * 1000 + spec['i'], acc)
    else:
        run_entry(spec['entry'], spec['n'], seed * 1000 + spec['i'], acc, tier)
    return acc
