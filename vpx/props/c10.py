"""C10  Tree editing API obeys its read/write/insert/delete/copy laws (stateful, model-based).

A Hypothesis RuleBasedStateMachine drives explicit operations against loop trees obtained from the context reader
and against a plain-Python mirror of them; every operation is an explicit JSON-able record, so a failing history
is replayed without Hypothesis.
"""
import copy
import io
import random

from .. import core, docgen, x12ref, mapmodel as mm, observe
from . import genfaulty, c02, c14

PID = 'C10'
RULE = ('Hypothesis RuleBasedStateMachine (stateful mode): a loop tree from the context reader (documents of 837P/I 4010+5010, 834, 835, '
        '271, 278; requested loops 2000A/2000B/2300/2000/2100/...) and a plain-Python mirror; rules = add_node (copy of a child loop; foreign nodes must be refused) and set_value/get_value at paths drawn '
        'from the mirror (relative loop paths, SEG[qual]NN-k, ../ from a child loop), exists/count/select/first on existing and '
        'non-existing paths, add_segment/add_loop with segments generated for a drawn child node, delete_segment, delete_node, copy() '
        'after which rules address either object, invalid paths. After every step: serialisation of each real tree = its mirror; '
        'exists <=> count>0 <=> first is not None <=> select non-empty and count = len(select) = mirror count; set-then-get returns '
        'the value; children of every loop stay ordered by map position; editing one of {copy, original} never changes the other; a '
        'failing call leaves the tree unchanged. Non-trivial = history with an insert or delete followed by a query, or a copy '
        'followed by a write; distinct by digest of the operation list.')
ASSUMPTIONS = ['the mirror uses pyx12.map_if nodes for positions and segment/qualifier matching (map_if is checked by C14-C16), never x12context code',
               'the exception type for invalid paths is not constrained; values written contain no delimiter']

MAPS = [('837.4010.X098.A1.xml', ['2000A', '2000B', '2300']), ('837.5010.X222.A1.xml', ['2000A', '2300']), ('837.4010.X096.A1.xml', ['2000A', '2300']),
        ('834.4010.X095.A1.xml', ['2000']), ('835.4010.X091.A1.xml', ['2000', '2100', 'ST_LOOP']), ('271.4010.X092.A1.xml', ['2000A', '2000B']),
        ('278.4010.X094.27.A1.xml', ['2000A']), ('834.5010.X220.A1.xml', ['2000']), ('835.5010.X221.A1.xml', ['2000', 'ST_LOOP']),
        # the one shipped map whose loop ids (AK2, AK3) are spelled like segment ids
        ('997.4010.xml', ['ST_LOOP', 'AK2'])]


# ------------------------------------------------------------------ mirror

class M(object):
    __slots__ = ('kind', 'x', 'children', 'elems', 'parent')

    def __init__(self, kind, x, parent=None):
        self.kind = kind
        self.x = x            # pyx12 map node
        self.children = []
        self.elems = None
        self.parent = parent

    @property
    def id(self):
        return self.x.id


def mirror(real, parent=None):
    if real.type == 'loop':
        m = M('loop', real.x12_map_node, parent)
        for ch in real.children:
            if ch.type is not None:
                m.children.append(mirror(ch, m))
        return m
    m = M('seg', real.x12_map_node, parent)
    sid, elems = x12ref.snapshot(real.seg_data)
    m.elems = elems
    return m


def mcopy(m, parent=None):
    n = M(m.kind, m.x, parent)
    n.elems = [list(e) for e in m.elems] if m.elems is not None else None
    n.children = [mcopy(c, n) for c in m.children]
    return n


def seg_text(m):
    els = x12ref.trim(m.elems)
    return m.id + '*' + '*'.join(':'.join(e) for e in els) + '~'


def serial_m(m, out=None):
    out = [] if out is None else out
    if m.kind == 'seg':
        out.append(seg_text(m))
    else:
        for c in m.children:
            serial_m(c, out)
    return out


def _map_order(x):
    sib = list(x.parent.pos_map.get(x.pos, [])) if getattr(x, 'parent', None) is not None and hasattr(x.parent, 'pos_map') else []
    return (x.pos, sib.index(x) if x in sib else len(sib))


def loop_shape(node):
    """the loops of a tree (ids and nesting, with the number of live segments each holds), empty ones included"""
    kids = [c for c in node.children if c.type is not None]
    return (node.id, sum(1 for c in kids if c.type == 'seg'), [loop_shape(c) for c in kids if c.type == 'loop'])


def serial_r(real):
    return [s['segment'].format('~', '*', ':') for s in real.iterate_segments()]


def m_value(m, ref):
    """value of a mirror segment at designator NN or NN-k, as Segment.get_value reports it"""
    ei = int(ref[:2]) - 1
    if ei >= len(m.elems):
        return None
    e = m.elems[ei]
    if '-' in ref:
        k = int(ref[3:]) - 1
        return e[k] if k < len(e) else None
    t = list(e)
    while len(t) > 1 and t[-1] == '':
        t.pop()
    return ':'.join(t)


def m_segobj(m):
    import pyx12.segment
    return pyx12.segment.Segment(seg_text(m), '~', '*', ':')


def qual_match(m, seg_id, qual):
    """Does mirror segment m answer to SEG[qual]?  Written from the documented rule (segment id, and - when a qualifier is
    given - the value of the node's qualifier element must be that code and the code must be one the node lists);
    deliberately not a call of map_if.is_match_qual, so that a change there shows up as a disagreement."""
    if m.id != seg_id:
        return False
    if qual is None:
        return True
    c = m.x.children
    if c[0].is_element() and c[0].data_type == 'ID' and len(c[0].valid_codes) > 0:      # required or not: it is the element the code qualifies
        return qual in c[0].valid_codes and m_value(m, '01') == qual
    if seg_id == 'ENT' and len(c) > 1 and c[1].is_element() and c[1].data_type == 'ID' and len(c[1].valid_codes) > 0:
        return qual in c[1].valid_codes and m_value(m, '02') == qual
    if c[0].is_composite() and c[0].children[0].data_type == 'ID' and len(c[0].children[0].valid_codes) > 0:
        return qual in c[0].children[0].valid_codes and m_value(m, '01-1') == qual
    if seg_id == 'HL' and len(c) > 2 and c[2].is_element() and len(c[2].valid_codes) > 0:
        return qual in c[2].valid_codes and m_value(m, '03') == qual
    return True


def m_select(m, loops, seg_id, qual):
    """mirror of the documented select semantics: every node at the relative path"""
    out = []
    if not loops:
        for c in m.children:
            if c.kind == 'seg':
                if seg_id is not None and qual_match(c, seg_id, qual):
                    out.append(c)
            elif seg_id is not None and c.id == seg_id:
                out.append(c)
        return out
    for c in m.children:
        if c.kind == 'loop' and c.id == loops[0]:
            if len(loops) == 1 and seg_id is None:
                out.append(c)
            else:
                out += m_select(c, loops[1:], seg_id, qual)
    return out


def m_first_segment(m, loops, seg_id, qual):
    """mirror of get/set semantics: first loop with each id, first matching segment"""
    cur = m
    for l in loops:
        nxt = None
        for c in cur.children:
            if c.kind == 'loop' and c.id == l:
                nxt = c
                break
        if nxt is None:
            return None
        cur = nxt
    for c in cur.children:
        if c.kind == 'seg' and qual_match(c, seg_id, qual):
            return c
    return None


def ordered(m):
    pos = [c.x.pos for c in m.children]
    if pos != sorted(pos):
        return False
    return all(ordered(c) for c in m.children if c.kind == 'loop')


# ------------------------------------------------------------------ explicit operations

class Sut(object):
    """system under test + mirror; ops are explicit records"""

    def __init__(self, text, fname, loop_id, which):
        import pyx12.x12context
        import pyx12.params
        import pyx12.error_handler
        observe.quiet()
        rd = pyx12.x12context.X12ContextReader(pyx12.params.params(), pyx12.error_handler.errh_null(), io.StringIO(text))
        trees = [n for n in rd.iter_segments(loop_id) if n.type == 'loop']
        if not trees:
            raise core.HarnessError('no tree for %s' % loop_id)
        self.real = [trees[which % len(trees)]]
        self.model = [mirror(self.real[0])]
        self.fname = fname
        self.log = []
        self.flags = set()
        self.last_deleted_parent = None

    # helpers
    def _resolve_real(self, t, start):
        """start: list of loop ids from the root to the node calls are made on ([] = root)"""
        node = self.real[t]
        for l in start:
            node = node.first(l)
            if node is None:
                return None
        return node

    def _resolve_model(self, t, start):
        node = self.model[t]
        for l in start:
            nxt = None
            for c in node.children:
                if c.kind == 'loop' and c.id == l:
                    nxt = c
                    break
            if nxt is None:
                return None
            node = nxt
        return node

    def check_all(self, what):
        for t in range(len(self.real)):
            a, b = serial_r(self.real[t]), serial_m(self.model[t])
            if a != b:
                j = 0
                while j < min(len(a), len(b)) and a[j] == b[j]:
                    j += 1
                other = ' (the tree that was NOT addressed)' if t != what.get('t', 0) and what.get('op') not in ('copy',) else ''
                kind = 'aliasing' if other else 'serialisation'
                raise Violation('%s:%s' % (kind, what.get('op')), 'after %r tree #%d%s differs at segment %d: real %r, mirror %r'
                                % (what, t, other, j, a[j:j + 1], b[j:j + 1]))
            if not ordered(self.model[t]):
                raise core.HarnessError('mirror out of order')
        # order of the real tree by map position
        for t in range(len(self.real)):
            bad = _unordered(self.real[t])
            if bad:
                raise Violation('map-order:%s' % what.get('op'), 'after %r: children of loop %s are not ordered by map position: %r' % (what, bad[0], bad[1]))

    def apply(self, op):
        self.log.append(op)
        k = op['op']
        t = op.get('t', 0) % len(self.real)
        op['t'] = t
        start = op.get('start', [])
        up = op.get('up', 0)
        rnode = self._resolve_real(t, start)
        mnode = self._resolve_model(t, start)
        if (rnode is None) != (mnode is None):
            raise Violation('first-disagrees', 'first(%r) gives %r, mirror %r' % (start, rnode, mnode))
        if rnode is None:
            return
        # '../' steps: the calls are made on a child, the path climbs back
        prefix = '../' * up
        mbase = mnode
        for _ in range(up):
            mbase = mbase.parent
            if mbase is None:
                return
        loops = op.get('loops', [])
        path_loops = '/'.join(loops)
        seg = op.get('seg')
        qual = op.get('qual')
        ref = op.get('ref')
        last = ''
        if seg:
            last = seg + ('[%s]' % qual if qual else '') + (ref or '')
        path = prefix + '/'.join([x for x in (path_loops, last) if x])
        if k in ('set', 'get'):
            target = m_first_segment(mbase, loops, seg, qual)
            if k == 'get':
                try:
                    got = rnode.get_value(path)
                except Exception as e:
                    raise Violation('get-raises', 'get_value(%r): %s' % (path, core.exc_detail(e)))
                exp = m_value(target, ref) if target is not None else None
                if got != exp:
                    raise Violation('get-value', 'get_value(%r) = %r, mirror %r' % (path, got, exp))
            else:
                v = op['value']
                if target is None:
                    before = [serial_r(x) for x in self.real]
                    try:
                        rnode.set_value(path, v)
                    except Exception:
                        pass
                    if [serial_r(x) for x in self.real] != before:
                        raise Violation('failed-set-changed-tree', path)
                    return
                try:
                    rnode.set_value(path, v)
                except Exception as e:
                    raise Violation('set-raises', 'set_value(%r): %s' % (path, core.exc_detail(e)))
                ei = int(ref[:2]) - 1
                while len(target.elems) <= ei:
                    target.elems.append([''])
                if '-' in ref:
                    kk = int(ref[3:]) - 1
                    while len(target.elems[ei]) <= kk:
                        target.elems[ei].append('')
                    target.elems[ei][kk] = v
                else:
                    target.elems[ei] = [v]
                back = rnode.get_value(path)
                # the first match may have changed when the written element is the qualifier itself
                if qual is None or ref[:2] not in ('01', '02', '03'):
                    if back != v:
                        raise Violation('set-then-get', 'set_value(%r,%r) then get_value = %r' % (path, v, back))
                self.flags.add('write')
                if len(self.real) > 1:
                    self.flags.add('write-after-copy')
        elif k == 'query_from_segment':
            # the four queries asked of a SEGMENT node, through '../': they resolve from the segment's loop and must agree
            msegs = [c for c in mnode.children if c.kind == 'seg']
            rsegs = [c for c in rnode.children if c.type == 'seg']
            if not msegs or len(msegs) != len(rsegs):
                return
            j = op['child'] % len(msegs)
            rs = rsegs[j]
            exp = m_select(mnode, loops, seg, qual)
            p2 = '../' + '/'.join([x for x in (path_loops, last) if x])
            try:
                ex = rs.exists(p2)
                ct = rs.count(p2)
                fi = rs.first(p2)
                se = list(rs.select(p2))
            except Exception as e:
                if not exp:
                    return
                raise Violation('query-raises', 'from segment %s, path %r: %s' % (msegs[j].id, p2, core.exc_detail(e)))
            if not (ex == (ct > 0) == (fi is not None) == (len(se) > 0)) or ct != len(se):
                raise Violation('query-inconsistent', 'from segment %s, path %r: exists=%r count=%r first=%r len(select)=%d' % (msegs[j].id, p2, ex, ct, fi is not None, len(se)))
            if ct != len(exp):
                raise Violation('query-count', 'from segment %s, path %r: count %d, mirror %d' % (msegs[j].id, p2, ct, len(exp)))
            self.flags.add('query-from-segment')
            if seg and exp and exp[0].kind == 'seg':
                # reading and writing through the same '../' path resolve to the same first segment
                p3 = p2 + '01'
                try:
                    got = rs.get_value(p3)
                except Exception as e:
                    raise Violation('get-raises', 'from segment %s, get_value(%r): %s' % (msegs[j].id, p3, core.exc_detail(e)))
                want = m_value(exp[0], '01')
                if got != want:
                    raise Violation('get-value', 'from segment %s, get_value(%r) = %r, mirror %r' % (msegs[j].id, p3, got, want))
                if want and not exp[0].elems[0][1:]:
                    try:
                        rs.set_value(p3, want)          # the same value again: the tree must not change
                    except Exception as e:
                        raise Violation('set-raises', 'from segment %s, set_value(%r): %s' % (msegs[j].id, p3, core.exc_detail(e)))
        elif k == 'query':
            exp = m_select(mbase, loops, seg, qual)
            try:
                ex = rnode.exists(path)
                ct = rnode.count(path)
                fi = rnode.first(path)
                se = list(rnode.select(path))
            except Exception as e:
                if not exp:
                    return          # the exception type for a path that selects nothing is not constrained
                raise Violation('query-raises', 'path %r: %s' % (path, core.exc_detail(e)))
            if not (ex == (ct > 0) == (fi is not None) == (len(se) > 0)) or ct != len(se):
                raise Violation('query-inconsistent', 'path %r: exists=%r count=%r first=%r len(select)=%d' % (path, ex, ct, fi is not None, len(se)))
            if ct != len(exp):
                raise Violation('query-count', 'path %r: count %d, mirror %d' % (path, ct, len(exp)))
            if se and exp:
                a = [x.id for x in se]
                b = [x.id for x in exp]
                if a != b:
                    raise Violation('query-nodes', 'path %r: %r vs %r' % (path, a, b))
                if fi is not se[0]:
                    raise Violation('first-is-not-first-selected', path)
            if 'edit' in self.flags:
                self.flags.add('query-after-edit')
        elif k == 'delete_node':
            exp = m_select(mbase, loops, seg, qual)
            try:
                res = rnode.delete_node(path)
            except Exception as e:
                if not exp:
                    return
                raise Violation('delete_node-raises', 'path %r: %s' % (path, core.exc_detail(e)))
            if bool(res) != bool(exp):
                raise Violation('delete_node-result', 'path %r returned %r, mirror has %d matches' % (path, res, len(exp)))
            if exp:
                victim = exp[0]
                par = victim.parent
                par.children.remove(victim)
                self.flags.add('edit')
                # remember where a node was deleted: inserting there next is the interesting history
                pl = []
                x = par
                while x is not None and x.parent is not None:
                    pl.insert(0, x.id)
                    x = x.parent
                self.last_deleted_parent = (t, pl)
        elif k == 'delete_segment':
            idx = op['index']
            segs = [c for c in mnode.children[1:] if c.kind == 'seg']
            if not segs:
                return
            victim = segs[idx % len(segs)]
            txt = seg_text(victim)
            try:
                res = rnode.delete_segment(txt)
            except Exception as e:
                raise Violation('delete_segment-raises', '%r: %s' % (txt, core.exc_detail(e)))
            # the first equal segment after the loop's first child goes
            eq = [c for c in mnode.children[1:] if c.kind == 'seg' and seg_text(c) == txt]
            if mnode.x.get_child_seg_node(m_segobj(victim)) is None:
                # an earlier write changed the qualifier: the segment no longer belongs to any child node of the loop
                if res:
                    raise Violation('delete_segment-foreign', txt)
                return
            if not res:
                raise Violation('delete_segment-result', '%r present but delete_segment returned %r' % (txt, res))
            mnode.children.remove(eq[0])
            self.flags.add('edit')
        elif k in ('add_segment', 'add_loop'):
            txt = op['text']
            import pyx12.segment
            sd = pyx12.segment.Segment(txt, '~', '*', ':')
            if op.get('deep'):
                # the segment starts a loop two levels down: no child loop of this node begins with it
                xn = None
            elif k == 'add_segment':
                xn = mnode.x.get_child_seg_node(sd)
            else:
                xn = mnode.x.get_child_loop_node(sd)
            before = serial_r(self.real[t])
            shape0 = loop_shape(self.real[t])
            try:
                if k == 'add_segment':
                    rnode.add_segment(txt)
                else:
                    rnode.add_loop(txt)
            except Exception as e:
                if xn is None:
                    if serial_r(self.real[t]) != before or loop_shape(self.real[t]) != shape0:
                        raise Violation('failed-add-changed-tree', txt)
                    self.flags.add('refused-add')
                    return
                raise Violation('%s-raises' % k, '%r: %s' % (txt, core.exc_detail(e)))
            if xn is None:
                raise Violation('%s-accepts-foreign-segment' % k, txt)
            idx = 0
            for i, c in enumerate(mnode.children):
                # map order: position first, then - for an added LOOP among sibling loops of one position - the order in which
                # the map lists them (segments of one position are order-free)
                if (_map_order(c.x) <= _map_order(xn)) if k == 'add_loop' else (c.x.pos <= xn.pos):
                    idx = i + 1
            sid, elems = x12ref.snapshot(sd)
            if k == 'add_segment':
                new = M('seg', xn, mnode)
                new.elems = elems
            else:
                new = M('loop', xn, mnode)
                s = M('seg', xn.get_child_seg_node(sd), new)
                s.elems = elems
                new.children.append(s)
            mnode.children.insert(idx, new)
            self.flags.add('edit')
        elif k == 'add_node':
            # a copy of one of the loop's child loops (or, 'foreign', of a grandchild / of the loop itself) handed to add_node
            rkids = [c for c in rnode.children if c.type == 'loop']
            mkids = [c for c in mnode.children if c.kind == 'loop']
            if len(rkids) != len(mkids) or not mkids:
                return
            j = op['child'] % len(mkids)
            rsrc, msrc = rkids[j], mkids[j]
            foreign = False
            if op.get('foreign'):
                rg = [c for c in rsrc.children if c.type == 'loop']
                mg = [c for c in msrc.children if c.kind == 'loop']
                if rg and len(rg) == len(mg):
                    rsrc, msrc = rg[0], mg[0]
                else:
                    rsrc, msrc = rnode, mnode
                foreign = True
            try:
                new_r = rsrc.copy()
            except Exception as e:
                raise Violation('copy-raises', core.exc_detail(e))
            before = serial_r(self.real[t])
            try:
                rnode.add_node(new_r)
            except Exception as e:
                if foreign:
                    if serial_r(self.real[t]) != before:
                        raise Violation('failed-add-changed-tree', 'add_node(%s) under %s' % (msrc.id, mnode.id))
                    return
                raise Violation('add_node-raises', '%s under %s: %s' % (msrc.id, mnode.id, core.exc_detail(e)))
            if foreign:
                raise Violation('add_node-accepts-foreign-node', '%s under %s' % (msrc.id, mnode.id))
            idx = 0
            for i2, c in enumerate(mnode.children):
                if _map_order(c.x) <= _map_order(msrc.x):
                    idx = i2 + 1
            mnode.children.insert(idx, mcopy(msrc, mnode))
            self.flags.add('edit')
            self.flags.add('add_node')
        elif k == 'copy':
            if len(self.real) >= 2:
                return
            try:
                c = self.real[t].copy()
            except Exception as e:
                raise Violation('copy-raises', core.exc_detail(e))
            # the copy tells the same about every segment (position in the set, source line included) ...
            a_ = [(x['segment'].format(), x.get('seg_count'), x.get('cur_line_number')) for x in self.real[t].iterate_segments()]
            b_ = [(x['segment'].format(), x.get('seg_count'), x.get('cur_line_number')) for x in c.iterate_segments()]
            if a_ != b_:
                j_ = [i for i in range(min(len(a_), len(b_))) if a_[i] != b_[i]][:1]
                raise Violation('copy-differs', 'segment #%s: original %r, copy %r' % (j_, a_[j_[0]] if j_ else len(a_), b_[j_[0]] if j_ else len(b_)))
            # ... and a copy of a part of the tree is no handle on the rest of it: a path that climbs out of the copy must not
            # change the original
            subs_ = [x for x in self.real[t].children if x.type == 'loop']
            segs_ = [x for x in self.real[t].children if x.type == 'seg']
            if subs_ and segs_:
                before_ = serial_r(self.real[t])
                part_ = subs_[0].copy()
                for p_ in ('../%s01' % segs_[0].id, '../%s02' % segs_[0].id):
                    try:
                        part_.set_value(p_, 'QQ')
                    except Exception:
                        pass
                try:
                    part_.delete_node('../' + subs_[0].id)
                except Exception:
                    pass
                if serial_r(self.real[t]) != before_:
                    raise Violation('copy-reaches-original', 'a write or delete through ../ on a copy of loop %s changed the original tree' % subs_[0].id)
            self.real.append(c)
            self.model.append(mcopy(self.model[t]))
            self.flags.add('copy')
        elif k == 'invalid':
            before = [serial_r(x) for x in self.real]
            path_ = op['path']
            if '@SEG' in path_:
                # a designator with element 00 or component 0 on a segment that is there: no such place
                segs_ = [c for c in rnode.children if c.type == 'seg']
                if not segs_:
                    return
                path_ = path_.replace('@SEG', segs_[0].id)
                for target in (rnode, segs_[0]):
                    try:
                        target.set_value(path_, 'Q')
                    except Exception:
                        pass
                    try:
                        target.set_value(path_[len(segs_[0].id):], 'Q') if target is segs_[0] else None
                    except Exception:
                        pass
                self.flags.add('designator-zero')
            for fn in ('get_value', 'exists', 'count', 'first', 'delete_node'):
                try:
                    r = getattr(rnode, fn)(path_)
                    if fn == 'select':
                        list(r)
                except Exception:
                    pass
            if [serial_r(x) for x in self.real] != before:
                raise Violation('invalid-path-changed-tree', path_)
        self.check_all(op)


def _unordered(real):
    kids = [c for c in real.children if c.type is not None]
    pos = [c.x12_map_node.pos for c in kids]
    if pos != sorted(pos):
        return (real.id, pos)
    for c in kids:
        if c.type == 'loop':
            r = _unordered(c)
            if r:
                return r
    return None


class Violation(Exception):
    def __init__(self, bucket, detail):
        Exception.__init__(self, '%s: %s' % (bucket, detail))
        self.bucket = bucket
        self.detail = detail


def check_case(case):
    out = core.Outcome()
    try:
        sut = Sut(case['text'], case['file'], case['loop_id'], case.get('which', 0))
        for op in case['ops']:
            sut.apply(dict(op))
    except Violation as v:
        out.fail(v.bucket, v.detail)
        return out
    out.nontrivial = 'query-after-edit' in sut.flags or 'write-after-copy' in sut.flags
    out.classes = sorted(sut.flags) + ['ops:%d' % min(30, len(case['ops']) // 5 * 5)]
    out.key = [case['text'][:200], case['ops']]
    return out


# ------------------------------------------------------------------ the state machine

def make_machine(text, fname, loop_id, which, gen_seed):
    import hypothesis.strategies as st
    from hypothesis.stateful import RuleBasedStateMachine, rule, precondition
    vals = st.sampled_from(['V1', 'W22', 'X', '7', '12.5', 'NEW VALUE', ''])
    root_mm = mm.load_map(fname)
    import pyx12.map_if
    import pyx12.params

    class Machine(RuleBasedStateMachine):
        last = None

        def __init__(self):
            RuleBasedStateMachine.__init__(self)
            self.sut = Sut(text, fname, loop_id, which)
            self.rng_seed = gen_seed
            self.pairs = None
            Machine.last = self

        # -- helpers to turn drawn integers into concrete operations on the current mirror
        def _all(self, t, kind):
            out = []

            def rec(m, loops):
                for c in m.children:
                    if c.kind == 'loop':
                        if kind == 'loop':
                            out.append((c, loops + [c.id]))
                        rec(c, loops + [c.id])
                    elif kind == 'seg':
                        out.append((c, loops))
            rec(self.sut.model[t % len(self.sut.model)], [])
            return out

        def _segpath(self, i, t, j, usequal, comp):
            segs = self._all(t, 'seg')
            if not segs:
                return None
            m, loops = segs[i % len(segs)]
            qual = None
            if usequal:
                try:
                    qe = m.x.guess_unique_key_id_element()
                except Exception:
                    qe = None
                if qe is not None:
                    sd = m_segobj(m)
                    ref = qe.get_path().split('/')[-1]
                    ref = ref[len(m.id):] if ref.startswith(m.id) else ref
                    ref = ref.split(']')[-1] if ']' in ref else ref
                    try:
                        qual = sd.get_value(ref[:2] if '-' not in ref else ref[:2] + '-' + str(int(ref.split('-')[1])))
                    except Exception:
                        qual = None
                    if not qual or not qual.isalnum():
                        qual = None
                    elif usequal == 2 and len(qe.valid_codes) > 1:
                        # a code the node lists but this segment does not carry: must select nothing here
                        others = [c for c in qe.valid_codes if c != qual and c.isalnum()]
                        if others:
                            qual = others[i % len(others)]
            n = max(1, len(m.elems))
            ei = j % (n + 6) + 1          # up to six positions past the end (padding with several blanks)
            ref = '%02d' % ei
            if comp:
                ref += '-%d' % comp
            return dict(loops=loops, seg=m.id, qual=qual, ref=ref)

        @rule(i=st.integers(0, 10 ** 6), t=st.integers(0, 1), j=st.integers(0, 40), q=st.booleans(), comp=st.sampled_from([0, 0, 0, 1, 2]), v=vals)
        def set_value(self, i, t, j, q, comp, v):
            p = self._segpath(i, t, j, q, comp)
            if p is None or (comp == 0 and v == '' and False):
                return
            # composite elements are written component-wise, simple ones whole
            self.sut.apply(dict(op='set', t=t, value=v or 'Z', **p))

        @rule(i=st.integers(0, 10 ** 6), t=st.integers(0, 1), j=st.integers(0, 40), q=st.booleans(), comp=st.sampled_from([0, 0, 1, 2, 5]))
        def get_value(self, i, t, j, q, comp):
            p = self._segpath(i, t, j, q, comp)
            if p is not None:
                self.sut.apply(dict(op='get', t=t, **p))

        @rule(i=st.integers(0, 10 ** 6), t=st.integers(0, 1), q=st.sampled_from([0, 1, 1, 2]), loopq=st.booleans(), miss=st.integers(0, 5))
        def query(self, i, t, q, loopq, miss):
            if loopq:
                ls = self._all(t, 'loop')
                if not ls:
                    return
                m, loops = ls[i % len(ls)]
                op = dict(op='query', t=t, loops=loops, seg=None)
            else:
                p = self._segpath(i, t, 0, q, 0)
                if p is None:
                    return
                op = dict(op='query', t=t, loops=p['loops'], seg=p['seg'], qual=p['qual'])
            if miss == 0:
                op['seg'] = 'ZZZ'
            elif miss == 1 and op['loops']:
                op['loops'] = op['loops'][:-1] + ['9999']
            self.sut.apply(op)

        @rule(i=st.integers(0, 10 ** 6), t=st.integers(0, 1), j=st.integers(0, 10 ** 6), q=st.sampled_from([0, 1, 2]), what=st.sampled_from(['query', 'query', 'delete_node', 'get']))
        def via_parent(self, i, t, j, q, what):
            """query / delete / read made on a child loop with a path that climbs back with ../ to a sibling"""
            root = self.sut.model[t % len(self.sut.model)]
            ls = [x for x in self._all(t, 'loop') if _is_first_path(root, x)]
            if not ls:
                return
            m, loops = ls[i % len(ls)]
            sibs = m.parent.children
            target = sibs[j % len(sibs)]
            if target.kind == 'loop':
                op = dict(op='query' if what == 'get' else what, t=t, start=loops, up=1, loops=[target.id], seg=None)
                if op['op'] == 'delete_node' and target is m:
                    return
            else:
                if sibs[0] is target and what == 'delete_node':
                    return
                p = None
                segs = self._all(t, 'seg')
                for n, (sm, sl) in enumerate(segs):
                    if sm is target:
                        p = self._segpath(n, t, 0, q, 0)
                        break
                if p is None:
                    return
                op = dict(op=what, t=t, start=loops, up=1, loops=[], seg=p['seg'], qual=p['qual'], ref=p['ref'])
            self.sut.apply(op)

        @rule(i=st.integers(0, 10 ** 6), t=st.integers(0, 1), up=st.integers(0, 1), v=vals)
        def set_via_parent(self, i, t, up, v):
            """call made on a child loop, path climbs back with ../"""
            ls = [x for x in self._all(t, 'loop') if len(x[1]) == 1]
            segs = [x for x in self._all(t, 'seg') if len(x[1]) == 0]
            if not ls or not segs:
                return
            m, loops = ls[i % len(ls)]
            s, _ = segs[i % len(segs)]
            # the start node must be the FIRST loop with that id for first() to return it
            self.sut.apply(dict(op='set', t=t, start=loops, up=1, loops=[], seg=s.id, qual=None, ref='%02d' % (max(1, len(s.elems))), value=v or 'Z'))

        @rule(i=st.integers(0, 10 ** 6), t=st.integers(0, 1), q=st.booleans(), loopq=st.booleans())
        def delete_node(self, i, t, q, loopq):
            if loopq:
                ls = self._all(t, 'loop')
                if not ls:
                    return
                m, loops = ls[i % len(ls)]
                self.sut.apply(dict(op='delete_node', t=t, loops=loops, seg=None))
            else:
                p = self._segpath(i, t, 0, q, 0)
                if p is None:
                    return
                m = self._all(t, 'seg')[i % len(self._all(t, 'seg'))][0]
                if m.parent.children and m.parent.children[0] is m:
                    return       # deleting the anchor segment of a loop leaves a headless loop: not a law we state
                self.sut.apply(dict(op='delete_node', t=t, loops=p['loops'], seg=p['seg'], qual=p['qual']))

        @rule(i=st.integers(0, 10 ** 6), t=st.integers(0, 1), idx=st.integers(0, 50))
        def delete_segment(self, i, t, idx):
            ls = [(self.sut.model[t % len(self.sut.model)], [])] + [x for x in self._all(t, 'loop') if _is_first_path(self.sut.model[t % len(self.sut.model)], x)]
            m, loops = ls[i % len(ls)]
            self.sut.apply(dict(op='delete_segment', t=t, start=loops, index=idx))

        @rule(i=st.integers(0, 10 ** 6), t=st.integers(0, 1), k=st.integers(0, 10 ** 6), s=st.integers(0, 2 ** 31), asloop=st.booleans(), near=st.booleans())
        def add(self, i, t, k, s, asloop, near):
            ls = [(self.sut.model[t % len(self.sut.model)], [])] + [x for x in self._all(t, 'loop') if _is_first_path(self.sut.model[t % len(self.sut.model)], x)]
            m, loops = ls[i % len(ls)]
            if near and self.sut.last_deleted_parent is not None and self.sut.last_deleted_parent[0] == t % len(self.sut.model):
                pl = self.sut.last_deleted_parent[1]
                cand = [x for x in ls if x[1] == pl]
                if cand:
                    m, loops = cand[0]
            if self.pairs is None:
                self.pairs = _pair_nodes(fname)
            kids = []
            deep = asloop and s % 5 == 0
            for ordk in sorted(m.x.pos_map):
                for c in m.x.pos_map[ordk]:
                    if deep and c.is_loop() and c.usage != 'N':
                        for g_ in c.childIterator():
                            if g_.is_loop() and g_.usage != 'N':
                                fs = g_.get_first_seg()
                                direct_ = [x.id for x in m.x.childIterator() if x.is_segment()]
                                for x in m.x.childIterator():
                                    if x.is_loop() and len(x) > 0:
                                        f_ = x.get_first_seg()
                                        if f_ is not None:
                                            direct_.append(f_.id)
                                if fs is not None and nkey(fs) in self.pairs and fs.id not in direct_:
                                    kids.append(fs)
                    elif asloop and c.is_loop() and c.usage != 'N':
                        fs = c.get_first_seg()
                        if fs is not None and nkey(fs) in self.pairs:
                            kids.append(fs)
                    elif not asloop and c.is_segment() and c.usage != 'N' and c is not m.x.get_first_seg() and nkey(c) in self.pairs:
                        kids.append(c)
            if not kids:
                return
            xn = kids[k % len(kids)]
            r = random.Random(s)
            try:
                vals_ = docgen.gen_segment(self.pairs[nkey(xn)], r, docgen.Values('~*:^'), .4)
            except docgen.GenFail:
                return
            txt = xn.id + '*' + '*'.join(':'.join(e) for e in x12ref.trim(vals_)) + '~'
            self.sut.apply(dict(op='add_loop' if asloop else 'add_segment', t=t, start=loops, text=txt, deep=bool(asloop and s % 5 == 0)))

        @rule(i=st.integers(0, 10 ** 6), t=st.integers(0, 1), k=st.integers(0, 10 ** 6), s=st.integers(0, 2 ** 31), j=st.integers(0, 10 ** 6))
        def delete_then_add(self, i, t, k, s, j):
            """delete a non-anchor child of a loop through its path, then insert a segment into the same loop"""
            root = self.sut.model[t % len(self.sut.model)]
            ls = [(root, [])] + [x for x in self._all(t, 'loop') if _is_first_path(root, x)]
            m, loops = ls[i % len(ls)]
            if m.children and m.children[0].kind == 'seg' and j % 5 == 0 and any(c.kind == 'seg' for c in m.children[1:]):
                # the loop's own first segment goes and comes back: it belongs in front of everything that is left
                a = m.children[0]
                txt = seg_text(a)
                self.sut.apply(dict(op='delete_node', t=t, loops=loops, seg=a.id, qual=None))
                self.sut.apply(dict(op='add_segment', t=t, start=loops, text=txt))
                return
            victims = [c for c in m.children[1:]]
            if not victims:
                return
            v = victims[j % len(victims)]
            if v.kind == 'seg':
                qual = None
                self.sut.apply(dict(op='delete_node', t=t, loops=loops, seg=v.id, qual=qual))
            else:
                self.sut.apply(dict(op='delete_node', t=t, loops=loops + [v.id], seg=None))
            self.add(i=0, t=t, k=k, s=s, asloop=False, near=True)

        @rule(i=st.integers(0, 10 ** 6), t=st.integers(0, 1), j=st.integers(0, 10 ** 6), q=st.integers(0, 10 ** 6))
        def query_from_segment(self, i, t, j, q):
            root = self.sut.model[t % len(self.sut.model)]
            ls = [(root, [])] + [x for x in self._all(t, 'loop') if _is_first_path(root, x)]
            m, loops = ls[i % len(ls)]
            kids = [c for c in m.children if c.kind in ('seg', 'loop')]
            if not kids:
                return
            c = kids[q % len(kids)]
            if c.kind == 'seg':
                self.sut.apply(dict(op='query_from_segment', t=t, start=loops, child=j, loops=[], seg=c.id, qual=None))
            else:
                self.sut.apply(dict(op='query_from_segment', t=t, start=loops, child=j, loops=[c.id], seg=None))

        @rule(i=st.integers(0, 10 ** 6), t=st.integers(0, 1), j=st.integers(0, 10 ** 6), foreign=st.sampled_from([False, False, False, True]))
        def add_node(self, i, t, j, foreign):
            root = self.sut.model[t % len(self.sut.model)]
            ls = [(root, [])] + [x for x in self._all(t, 'loop') if _is_first_path(root, x)]
            ls = [x for x in ls if any(c.kind == 'loop' for c in x[0].children)]
            if not ls:
                return
            m, loops = ls[i % len(ls)]
            self.sut.apply(dict(op='add_node', t=t, start=loops, child=j, foreign=foreign))

        @precondition(lambda self: len(self.sut.real) < 2)
        @rule(t=st.integers(0, 0))
        def copy(self, t):
            self.sut.apply(dict(op='copy', t=t))

        @rule(t=st.integers(0, 1), p=st.sampled_from(['', '/', '..', '../..', 'ZZZ', '9999/', '[X]01', 'NM1[', '9999/NM101', '../../../NM101', 'ZZ999-99', '-1', 'REF[XX]02', '@SEG00', '@SEG01-0', '@SEG02-0', '@SEG00', '@SEG03-0']))
        def invalid(self, t, p):
            self.sut.apply(dict(op='invalid', t=t, path=p))

    return Machine


def _is_first_path(root, item):
    """is this loop reachable by first() calls along its id path (i.e. it is the first loop with its id at each level)"""
    m, loops = item
    node = root
    for l in loops:
        nxt = None
        for c in node.children:
            if c.kind == 'loop' and c.id == l:
                nxt = c
                break
        if nxt is None:
            return False
        node = nxt
    return node is m


_pairs_cache = {}


def _pair_nodes(fname):
    """pyx12 segment node identity -> mapmodel segment node (same map order)"""
    if fname in _pairs_cache:
        return _pairs_cache[fname]
    import pyx12.map_if
    import pyx12.params
    return {}


def pair_for_map(pmap, fname):
    ps = c14.pyx_segments(pmap)
    rs = c14.ref_segments(mm.load_map(fname))
    if [p.id for p in ps] != [r.id for r in rs]:
        return {}
    return {nkey(p): r for p, r in zip(ps, rs)}


def nkey(p):
    return (p.get_path(), p.pos, p.name)


def run_history(spec, seed, acc, n, steps, shrink):
    import hypothesis
    from hypothesis import settings, HealthCheck, Phase
    from hypothesis.stateful import run_state_machine_as_test
    fname, lids = MAPS[spec['map'] % len(MAPS)]
    entry = [e for e in c02.entries() if e['file'] == fname][0]
    # documents come from the seeded generator (structure choices are a pure function of the seed)
    for d_i in range(spec['docs']):
        ch = docgen.RandomChooser(seed * 7919 + spec['map'] * 101 + d_i)
        try:
            doc = docgen.build_doc(entry, ch, p_seg=.5, p_loop=.5, max_rep=3, shape=(1, 1, 1), max_segs=200)
        except docgen.GenFail:
            continue
        text = doc.text()
        present = [l for l in lids if any(l in [x.id for x, k in s.chain] for s in doc.segs)]
        if not present:
            continue
        loop_id = present[d_i % len(present)]
        try:
            Machine = make_machine(text, fname, loop_id, d_i, seed)
            probe = Sut(text, fname, loop_id, d_i)
        except core.HarnessError:
            continue
        pairs = pair_for_map(probe.real[0].x12_map_node.root, fname)

        class Bound(Machine):
            def __init__(self):
                Machine.__init__(self)
                self.pairs = pairs
        Bound.__name__ = 'TreeEditing'
        Bound.__qualname__ = 'TreeEditing'
        phases = [Phase.generate, Phase.shrink] if shrink else [Phase.generate]
        st_ = settings(max_examples=n, stateful_step_count=steps, deadline=None, database=None, derandomize=False,
                       report_multiple_bugs=False, phases=phases, suppress_health_check=list(HealthCheck))
        logs = []
        orig_init = Bound.__init__

        def init(self, _o=orig_init):
            _o(self)
            logs.append(self.sut)
        Bound.__init__ = init
        try:
            run_state_machine_as_test(hypothesis.seed(seed * 1000 + spec['map'] * 10 + d_i)(Bound), settings=st_)
        except Violation as v:
            sut = logs[-1]
            case = {'text': text, 'file': fname, 'loop_id': loop_id, 'which': d_i, 'ops': sut.log}
            acc.fail(v.bucket, case, v.detail)
        except Exception as e:
            if isinstance(e.__cause__, Violation) or 'Violation' in type(e).__name__:
                v = e.__cause__
                sut = logs[-1]
                acc.fail(v.bucket, {'text': text, 'file': fname, 'loop_id': loop_id, 'which': d_i, 'ops': sut.log}, v.detail)
            else:
                raise
        for sut in logs:
            acc.evaluations += 1
            if 'query-after-edit' in sut.flags or 'write-after-copy' in sut.flags:
                acc.nontrivial.add(core.digest([text[:300], sut.log]))
            for f in sut.flags:
                acc.classes[f] += 1
            acc.classes['steps:%d+' % (len(sut.log) // 10 * 10)] += 1
            if len(acc.samples) < 2 and len(sut.log) > 8:
                acc.samples.append({'file': fname, 'loop_id': loop_id, 'ops': sut.log[:12]})


def shards(tier, seed):
    return [{'map': i, 'docs': 6 if tier == 'thorough' else 2} for i in range(len(MAPS))] + \
           [{'map': i + len(MAPS), 'docs': 6 if tier == 'thorough' else 2} for i in range(7)]


def run_shard(spec, seed, tier):
    acc = core.Acc()
    run_history(spec, seed + (spec['map'] // len(MAPS)) * 17, acc, n=60 if tier == 'thorough' else 25, steps=30, shrink=(tier == 'thorough'))
    return acc
