"""C08  X12 -> XML -> X12 is the identity on structurally valid documents.

The generator's instance tree (which map node each segment was meant to be, which loop instances enclose it) is
the reference model for the XML nesting.
"""
import io
import re
import os
import tempfile
import xml.etree.ElementTree as ET

from .. import core, docgen, observe, x12ref, mapmodel as mm, faults
from . import genfaulty, c02

PID = 'C08'
RULE = ('Generated conformant documents of every transaction map with values over printable ASCII incl. & < > \' " and leading/inner '
        'blanks, drawn source delimiters, 1..2 sets/groups, some not-used elements filled on purpose. The XML sink must parse; the '
        '<seg> sequence must equal the source; each seg\'s chain of <loop id> ancestors must equal the map path of its intended node; '
        'two consecutive segments share a loop element exactly when the generator put them in the same loop instance; every '
        'ele/subele id must be the reference designator and its text the value; xmlx12_simple.convert of that XML, tokenised by '
        'the reference tokeniser, must equal the source segments except delimiters, ISA11/ISA16 and not-used elements. '
        'Non-trivial = has a repeated loop, a composite and a markup character; distinct by digest of the text.')
ASSUMPTIONS = ['values avoid ~ * : ^ (delimiters hard-coded in convert) and the source delimiters; CR is not used in values (XML normalises it)']


def xml_segments(xml_text):
    """-> list of (seg id, [loop ids outermost first], [loop element identities], [(ele id, text)], [(subele id, text)])"""
    root = ET.fromstring(xml_text)
    out = []

    def rec(el, path, idents):
        for ch in el:
            if ch.tag == 'loop':
                rec(ch, path + [ch.get('id')], idents + [id(ch)])
            elif ch.tag == 'seg':
                eles = []
                comps = []
                for x in ch:
                    if x.tag == 'ele':
                        eles.append((x.get('id'), x.text or ''))
                    elif x.tag == 'comp':
                        comps.append((x.get('id'), [y.get('id') for y in x if y.tag == 'subele']))
                        for y in x:
                            if y.tag == 'subele':
                                eles.append((y.get('id'), y.text or ''))
                out.append((ch.get('id'), path, idents, eles, comps))
    rec(root, [], [])
    return out, root


def check_case(case):
    out = core.Outcome()
    text = case['text']
    meta = case.get('meta', {})
    paths = case['paths']          # per segment: loop ids
    insts = case['insts']          # per segment: loop instance numbers
    notused = case.get('notused', [])
    out.classes = ['map:' + meta.get('file', '?')]
    out.key = text
    param = None
    if case.get('simple_dtd'):
        import pyx12.params
        param = pyx12.params.params()
        param.set('simple_dtd', case['simple_dtd'])
        out.classes.append('simple_dtd-set')
    o = observe.run_validator(text, ack=False, xml=True, param=param)
    if o.exc is not None:
        out.fail(core.exc_bucket(o.exc, 'validate'), core.exc_detail(o.exc))
        return out
    d, src = x12ref.tokenize(text)
    has_repeat = any(insts[i][:len(insts[i - 1])] != insts[i - 1][:len(insts[i])] and paths[i] == paths[i - 1] for i in range(1, len(insts)))
    has_comp = any(len(e) > 1 for s in src if s.id != 'ISA' for e in s.elems)
    has_markup = any(c in text[106:] for c in '&<>\'"')
    out.nontrivial = has_repeat and has_comp and has_markup
    for k, v in (('repeated-loop', has_repeat), ('composite', has_comp), ('markup-chars', has_markup), ('not-used-filled', bool(notused))):
        if v:
            out.classes.append(k)
    try:
        xs, root = xml_segments(o.xml)
    except ET.ParseError as e:
        out.fail('xml-not-well-formed', '%s' % e)
        return out
    if [x[0] for x in xs] != [s.id for s in src]:
        out.fail('seg-sequence', '%d <seg> for %d source segments' % (len(xs), len(src)))
        return out
    for i, (x, s) in enumerate(zip(xs, src)):
        if x[1] != paths[i]:
            out.fail('loop-path', 'segment #%d %s: XML ancestors %r, map path of the intended node %r' % (i, s.id, x[1], paths[i]))
            return out
    for i in range(1, len(xs)):
        a, b = xs[i - 1], xs[i]
        ia, ib = insts[i - 1], insts[i]
        for k in range(min(len(a[2]), len(b[2]))):
            same_xml = a[2][k] == b[2][k]
            same_doc = ia[k] == ib[k]
            if same_xml != same_doc:
                out.fail('loop-instance:%s' % ('merged' if same_xml else 'split'),
                         'segments #%d %s and #%d %s at depth %d (%s): XML %s, generator %s'
                         % (i - 1, a[0], i, b[0], k, b[1][k], 'same element' if same_xml else 'different elements',
                            'same instance' if same_doc else 'different instances'))
                return out
    # ids and values
    nu = set(tuple(x) for x in notused)
    for i, (x, s) in enumerate(zip(xs, src)):
        exp = []
        for ei, e in enumerate(s.elems):
            if s.id == 'ISA':
                if e[0] != '':
                    exp.append(('ISA%02d' % (ei + 1), e[0]))
                continue
            if (i, ei) in nu:
                continue
            if len(e) == 1 and not case['composite_pos'].get('%d:%d' % (i, ei)):
                if e[0] != '':
                    exp.append(('%s%02d' % (s.id, ei + 1), e[0]))
            else:
                if all(c == '' for c in e):
                    continue
                for ci, c in enumerate(e):
                    exp.append(('%s%02d-%02d' % (s.id, ei + 1, ci + 1), c))
        exp = [(a, xclean(b)) for a, b in exp]
        exp = [(a, b) for a, b in exp if b != '' or '-' in a]
        if s.id == 'ISA':
            # the ISA separator fields are exempt (they are rewritten, and control characters cannot live in XML)
            exp = [(a, b) for a, b in exp if a not in ('ISA11', 'ISA16')]
        got = [(a, b) for a, b in x[3] if not (s.id == 'ISA' and a in ('ISA11', 'ISA16'))]
        gotn = [(a, b) for a, b in got if b != '' or '-' in a]
        expn = [(a, b) for a, b in exp]
        if _canon(gotn) != _canon(expn):
            out.fail('ele-ids-or-values', 'segment #%d %s: XML %r, source %r' % (i, s.id, gotn[:8], expn[:8]))
            return out
        # a composite carries its own reference designator (SVC01), the one its components extend (SVC01-02)
        for cid, subs in x[4]:
            if subs and any((sid_ or '').split('-')[0] != cid for sid_ in subs):
                out.fail('composite-label', 'segment #%d %s: composite labelled %r holds components %r' % (i, s.id, cid, subs[:4]))
                return out
    # back to X12
    fd, tmp = tempfile.mkstemp(prefix='vpx_c08_', suffix='.xml')
    try:
        with os.fdopen(fd, 'w', encoding='utf-8') as fh:
            fh.write(o.xml)
        import pyx12.xmlx12_simple
        buf = io.StringIO()
        try:
            pyx12.xmlx12_simple.convert(tmp, buf)
        except Exception as e:
            out.fail(core.exc_bucket(e, 'convert'), core.exc_detail(e))
            return out
    finally:
        try:
            os.unlink(tmp)
        except OSError:
            pass
    d2, back = x12ref.tokenize(buf.getvalue())
    a = []
    for i, s in enumerate(src):
        els = [[xclean(c) for c in e] for e in s.elems]
        for (si, ei) in nu:
            if si == i and ei < len(els):
                els[ei] = ['']
        if s.id == 'ISA':
            # the ISA separator fields are exempt (statement): whatever delimiters the converter writes with
            els[15] = ['<sep>']
            if d['icvn'] == '00501':
                els[10] = ['<sep>']
        a.append((s.id, x12ref.trim(els)))
    b = []
    for s in back:
        els = [list(e) for e in s.elems]
        if s.id == 'ISA' and len(els) > 15:
            els[15] = ['<sep>']
            if d['icvn'] == '00501':
                els[10] = ['<sep>']
        b.append((s.id, x12ref.trim(els)))
    if a != b:
        j = 0
        while j < min(len(a), len(b)) and a[j] == b[j]:
            j += 1
        out.fail('roundtrip:%s' % ('count' if len(a) != len(b) else 'value'),
                 'segment #%d: source %r, after XML round trip %r' % (j, (a[j:j + 1] or [None])[0], (b[j:j + 1] or [None])[0]))
    return out


XML_ILLEGAL = re.compile('[\x00-\x08\x0b\x0c\x0e-\x1f]')


def xclean(v):
    """XML 1.0 has no way to hold these characters, not even as references: a value loses them on the way (ledger)"""
    return XML_ILLEGAL.sub('', v)


def _canon(pairs):
    """component ids may be written PLB03-1 or PLB03-01"""
    out = []
    for a, b in pairs:
        if '-' in a:
            h, t = a.rsplit('-', 1)
            try:
                a = '%s-%02d' % (h, int(t))
            except ValueError:
                pass
        out.append((a, b))
    return out


def make_case(doc, dl, acc, eol='\n'):
    paths = []
    insts = []
    comp = {}
    for i, s in enumerate(doc.segs):
        paths.append([l.id for l, n in s.chain])
        insts.append([n for l, n in s.chain])
        for ei, c in enumerate(s.node.children):
            if c.kind == 'comp':
                comp['%d:%d' % (i, ei)] = True
    return {'text': doc.text(term=dl[0], ele=dl[1], sub=dl[2], rep=dl[3], eol='' if dl[0] == '\n' else eol),
            'paths': paths, 'insts': insts, 'composite_pos': comp,
            'meta': {'file': doc.entry['file'], 'delims': list(dl)}}


VALUE_FAULTS = ['too-long', 'too-short', 'wrong-char-class', 'bad-date', 'bad-time', 'required-removed', 'extra-component', 'extra-element', 'control-char', 'control-char']


def run_entry(entry, n, seed, acc, tier):
    from hypothesis import strategies as st

    @st.composite
    def case(draw):
        ch = docgen.HypChooser(draw)
        dl = ch.choice([('~', '*', ':', '^'), ('~', '*', ':', '^'), ('|', '!', '\\', '`'), ('\n', '|', '>', '`'), ('\x1c', '\x1d', '\x1e', '\x1f')])
        avoid = '~*:^' + ''.join(dl)
        if dl[0] != '~' and ch.chance(.5):
            # under other delimiters ~ * : ^ are plain data characters (the converter back to X12 writes with ~ * : ^)
            avoid = ''.join(dl)
        kw = dict(p_seg=ch.choice([.3, .5, .8]), p_loop=ch.choice([.2, .4, .6]), max_rep=ch.choice([2, 3]), max_segs=300,
                  shape=ch.choice([(1, 1, 1), (1, 1, 2), (1, 2, 1), (2, 1, 1)]))
        doc = None
        for attempt in range(5):
            try:
                doc = docgen.build_doc(entry, ch, values=docgen.Values(avoid, ch.choice(['markup', 'markup', 'plain']), entry['icvn']), **kw)
                doc.avoid = avoid
                break
            except docgen.GenFail:
                kw = dict(kw, p_loop=kw['p_loop'] * .4)
                if attempt >= 2:
                    kw['p_loop'] = 0.0
        if doc is None:
            return {'skip': 'genfail'}
        c02.strip_known(doc, acc)
        if not (set('~*:') & set(avoid)):
            sites = [(sg, ei) for sg in doc.segs if sg.id not in ('ISA', 'GS', 'ST', 'SE', 'GE', 'IEA')
                     for ei, c in enumerate(sg.node.children)
                     if c.kind == 'ele' and c.dtype == 'AN' and not c.codes and not c.ext and c.usage != 'N' and ei > 0 and ei < len(sg.vals)
                     and len(sg.vals[ei][0]) >= 3 and c.de not in ('1250', '1251') and not c.regex]
            isa_only = ch.chance(.3)
            for _ in range(0 if isa_only else min(3, len(sites))):
                sg, ei = sites[ch.integer(0, len(sites) - 1)]
                v = sg.vals[ei][0]
                k = len(v) // 2
                sg.vals[ei] = [v[:k] + ch.choice(['*', ':', '~', '*', ':']) + v[k + 1:]]
            if isa_only or ch.chance(.2):
                # ... and in the fixed-width free text of the header (ISA02/04/06/08), which may then be the only place of the whole
                # document that holds the character
                for sg in doc.segs:
                    if sg.id == 'ISA' and len(sg.vals) > 7:
                        k_ = ch.choice([1, 3, 5, 7])
                        v = sg.vals[k_][0]
                        if len(v) >= 3:
                            sg.vals[k_] = [v[:1] + ch.choice(['~', '*', ':']) + v[2:]]
        if ch.chance(.25):
            # a line break or a tab inside a value is data (the library's own 834_eol_in_element example): it comes back as it went
            sites = [(sg, ei) for sg in doc.segs if sg.id not in ('ISA', 'GS', 'ST', 'SE', 'GE', 'IEA')
                     for ei, c in enumerate(sg.node.children)
                     if c.kind == 'ele' and c.dtype == 'AN' and not c.codes and not c.ext and c.usage != 'N' and ei > 0 and ei < len(sg.vals)
                     and len(sg.vals[ei][0]) >= 3 and c.de not in ('1250', '1251') and not c.regex]
            for _ in range(min(2, len(sites))):
                sg, ei = sites[ch.integer(0, len(sites) - 1)]
                v = sg.vals[ei][0]
                k = len(v) // 2
                w = ch.choice([x for x in ('\r', '\r\n', '\n', '\t', '\r') if not (set(x) & set(dl))])
                sg.vals[ei] = [v[:k] + w + v[k + 1:]]
        if ch.chance(.12):
            # a value made of nothing but a character XML cannot hold: the element arrives empty, and must still come back
            sites = [(sg, ei) for sg in doc.segs if sg.id not in ('ISA', 'GS', 'ST', 'SE', 'GE', 'IEA')
                     for ei, c in enumerate(sg.node.children)
                     if c.kind == 'ele' and c.dtype == 'AN' and not c.codes and not c.ext and c.usage != 'N' and ei > 0 and ei < len(sg.vals)
                     and sg.vals[ei][0] != '' and c.de not in ('1250', '1251') and not c.regex]
            cc = [x for x in ('\x07', '\x1d', '\x1f', '\x01') if x not in dl]
            if sites and cc:
                sg, ei = sites[ch.integer(0, len(sites) - 1)]
                sg.vals[ei] = [ch.choice(cc)]
        if ch.chance(.15):
            # a simple element sent with components (an error, but the segment is located): they come back as components
            sites = [(sg, ei) for sg in doc.segs if sg.id not in ('ISA', 'GS', 'ST', 'SE', 'GE', 'IEA')
                     for ei, c in enumerate(sg.node.children)
                     if c.kind == 'ele' and c.dtype == 'AN' and not c.codes and not c.ext and c.usage != 'N' and ei > 0 and ei < len(sg.vals)
                     and sg.vals[ei][0] != '' and c.de not in ('1250', '1251') and not c.regex]
            if sites:
                sg, ei = sites[ch.integer(0, len(sites) - 1)]
                sg.vals[ei] = ['399 ELM', 'SUITE 4'] if ch.chance(.7) else ['A', '', 'C']
        if ch.chance(.1):
            # far more elements than the segment defines (reported, but the segment is located): past the 99th a reference
            # designator cannot name them any more, the XML labels them by position
            body_ = [sg for sg in doc.segs if sg.id not in ('ISA', 'GS', 'ST', 'SE', 'GE', 'IEA', 'HL', 'LX')]
            if body_:
                sg = body_[ch.integer(0, len(body_) - 1)]
                n_ = ch.choice([100, 101, 104])
                sg.vals = list(sg.vals) + [['']] * max(0, n_ - 2 - len(sg.vals)) + [['Y'], ['Z', 'W'] if ch.chance(.5) else ['Z']]
        if entry['icvn'] == '00401' and dl[0] != '~' and ch.chance(.3):
            # before 00501, ISA11 is an ordinary element: under other delimiters it may hold ~ * or :
            c_ = [x for x in '*~:' if x not in dl]
            for sg in doc.segs:
                if sg.id == 'ISA' and c_:
                    sg.vals[10] = [ch.choice(c_)]
        notused = []
        if ch.chance(.4):
            cands = faults.candidates(doc, 'not-used-filled')
            for _ in range(min(3, len(cands))):
                loc = cands[ch.integer(0, len(cands) - 1)]
                res = faults.inject(doc, 'not-used-filled', loc, ch.seed())
                if res is not None and (loc[0], loc[1]) not in notused:
                    doc = res[0]
                    notused.append((loc[0], loc[1]))
        # "every segment is located in its map" does not ask for valid values: defects that leave the matching of segments
        # alone (length, character class, calendar, a required element left empty, a surplus component) must round-trip too
        vfaults = []
        if ch.chance(.35):
            for _ in range(ch.integer(1, 3)):
                kind = ch.choice(VALUE_FAULTS)
                cands = [x for x in faults.candidates(doc, kind) if (x[0], x[1]) not in notused]
                if not cands:
                    continue
                res = faults.inject(doc, kind, cands[ch.integer(0, len(cands) - 1)], ch.seed())
                if res is not None:
                    doc = res[0]
                    vfaults.append(kind)
        c = make_case(doc, dl, acc, eol=ch.choice(['\n', '\n', '', '\r\n']))
        c['notused'] = [list(x) for x in notused]
        c['meta']['value_faults'] = vfaults
        if ch.chance(.25):
            c['simple_dtd'] = 'http://www.example.org/dtd/x12simple.dtd'     # documented run-time option: adds a DOCTYPE
        return c

    def chk(c):
        if 'skip' in c:
            return core.Outcome(classes=['skipped:' + c['skip']])
        return check_case(c)

    core.hyp_collect(case(), chk, n, seed, acc, case_timeout=120)


def run_mixed(n, seed, acc):
    """interchanges whose functional groups come from different maps: the converter changes maps at every GS"""
    from hypothesis import strategies as st

    @st.composite
    def case(draw):
        ch = docgen.HypChooser(draw)
        dl = ch.choice([('~', '*', ':', '^'), ('~', '*', ':', '^'), ('|', '!', '\\', '`')])
        try:
            doc = c02.build_mixed(ch, flavor=ch.choice(['markup', 'plain']), values_avoid='~*:^' + ''.join(dl))
        except docgen.GenFail:
            return {'skip': 'genfail'}
        c = make_case(doc, dl, acc, eol=ch.choice(['\n', '\n', '', '\r\n']))
        c['meta']['file'] = 'mixed'
        c['meta']['parts'] = [e['file'] for e in doc.parts]
        c['notused'] = []
        return c

    def chk(c):
        if 'skip' in c:
            return core.Outcome(classes=['skipped:' + c['skip']])
        out = check_case(c)
        out.classes.append('mixed-maps')
        return out

    core.hyp_collect(case(), chk, n, seed, acc, case_timeout=120)


def shards(tier, seed):
    return [{'entry': e, 'i': i, 'n': 200 if tier == 'thorough' else 30} for i, e in enumerate(genfaulty.entries(exclude_ack=False))] + \
        [{'mixed': True, 'i': 200 + i, 'n': 80 if tier == 'thorough' else 20} for i in range(8)]


def run_shard(spec, seed, tier):
    acc = core.Acc()
    if spec.get('mixed'):
        run_mixed(spec['n'], seed * 1000 + spec['i'], acc)
        return acc
    run_entry(spec['entry'], spec['n'], seed * 1000 + spec['i'], acc, tier)
    return acc
