"""C03  Every single injected fault is rejected and localised.

Conformant two-set documents (vpx.docgen) + exactly one catalogued fault (vpx.faults) at a drawn location.
"""
from .. import core, mapmodel as mm, docgen, faults, observe, x12ref
from . import c02

PID = 'C03'
LEVEL = 'fault_enumeration'
RULE = ('Conformant documents with two transaction sets (generator of C02) x one fault drawn kind-first then location-uniform from '
        'the catalogue: too long, too short, not in code list, wrong character class, control character, impossible date, '
        'impossible time, required element removed, value in not-used element, extra trailing element, extra component, broken '
        'P/R/E/C/L note, unknown segment, required segment removed, segment repeated past max_use, loop repeated past its limit. '
        'Oracle: verdict False; an error with an expected standard code at (set, position in set, element, component) of the '
        'injection, with the offending value where one exists; matching AK3/AK4 (IK3/IK4) in the independently tokenised '
        'acknowledgement; for local faults nothing at any other (segment, element) coordinate and the sibling set AK5/IK5 = A. '
        'Thorough adds target mode: every body segment node of every map is forced into a document and receives every '
        'applicable fault kind once. Non-trivial: every case; distinct by (map, node path, element, fault kind).')
ASSUMPTIONS = ['expected code sets follow the X12 997/999 code lists (vpx/faults.py); where pyx12 documents its own choice the set has several members',
               'elements used for matching, bookkeeping elements (HL01-04, LX01, BHT02, DTP02/1250 qualifiers) and envelope segments are not fault sites',
               'for a removed required segment / loop over its limit only rejection and the coded error in the faulty set are required (not locality)']


def parse_ack(ack):
    """-> list of sets: dict(code, ak3=[(seg_id, pos, code, [ak4 (ele, sub, code, value)])])"""
    d, segs = x12ref.tokenize(ack)
    sets = []
    cur = None
    cur3 = None
    for s in segs:
        v = [d['sub'].join(e) for e in s.elems]
        if s.id == 'AK2':
            cur = {'code': None, 'ak3': []}
            sets.append(cur)
            cur3 = None
        elif s.id in ('AK3', 'IK3') and cur is not None:
            cur3 = {'seg_id': v[0] if v else None, 'pos': v[1] if len(v) > 1 else None, 'code': v[3] if len(v) > 3 else None, 'ak4': []}
            cur['ak3'].append(cur3)
        elif s.id in ('AK4', 'IK4') and cur3 is not None:
            p = s.elems[0] if s.elems else ['']
            cur3['ak4'].append({'ele': p[0], 'sub': p[1] if len(p) > 1 else None, 'code': v[2] if len(v) > 2 else None,
                                'value': v[3] if len(v) > 3 else None})
        elif s.id in ('AK5', 'IK5') and cur is not None:
            cur['code'] = v[0] if v else None
            cur = None
            cur3 = None
    return sets


def check_case(case):
    out = core.Outcome()
    text = case['text']
    exp = case['expect']
    kind = exp['kind']
    meta = case.get('meta', {})
    f = meta.get('file', '?')
    out.classes = ['kind:' + kind, 'map:' + f]
    out.nontrivial = True
    out.key = [f, exp.get('node'), exp.get('ele'), exp.get('sub'), kind]
    if exp.get('immediate_repeat'):
        kind = kind + '[loop-repeats-immediately]'
        out.classes.append('required-segment-removed:loop-repeats-immediately')
    o = observe.run_validator(text, ack=True)
    if o.exc is not None:
        out.fail(core.exc_bucket(o.exc, '%s:exception' % kind), core.exc_detail(o.exc))
        return out
    if o.verdict is not False:
        out.fail('%s:not-rejected' % kind, 'verdict %r for %s at %s ele %s' % (o.verdict, kind, exp.get('node'), exp.get('ele')))
    here = [e for e in o.errors if (e['isa'], e['gs'], e['st']) == (exp['isa'], exp['gs'], exp['st'])]
    codes = set(exp['codes'])
    if exp['level'] == 'ele':
        at_seg = [e for e in here if e['level'] == 'ele' and e['pos'] == exp['pos']]
        npos = exp.get('note_positions')
        hit = [e for e in at_seg if e['code'] in codes and (e['ele'] in npos if npos else e['ele'] == exp['ele'])
               and (exp.get('any_sub') or npos or e['sub'] == exp['sub'])]
        seen_ = set()
        for e in at_seg:
            k_ = (e['code'], e['ele'], e['sub'], e['msg'])
            if k_ in seen_:
                # one fault, one report: the same message twice at one place is one report too many
                out.fail('%s:reported-twice' % kind, 'set %s pos %s ele %s: %r twice' % (exp['st'], exp['pos'], e['ele'], (e['msg'] or '')[:120]))
                break
            seen_.add(k_)
        if not hit:
            near = [e for e in here if e['code'] in codes]
            where = 'wrong-coordinates' if near else 'no-such-error'
            out.fail('%s:%s' % (kind, where), 'expected code %s at set %s pos %s ele %s sub %s; errors in that set: %s'
                     % (sorted(codes), exp['st'], exp['pos'], exp['ele'], exp['sub'], _brief(here)))
    else:
        if exp['kind'] == 'loop-body-removed':
            # every required child of the instance that was cut down to its first segment is reported missing, once, where the
            # repeat starts; nothing else is reported
            want = sorted(exp.get('removed_list', []))
            hit = [e for e in here if e['level'] == 'seg' and e['code'] in codes]
            got = sorted(e['seg_id'] for e in hit)
            if not hit:
                out.fail('%s:no-such-error' % kind, 'required %s cut away; errors in that set: %s' % (want, _brief(here)))
            elif got != want or [e for e in o.errors if e not in hit]:
                out.fail('%s:wrong-set-of-reports' % kind, 'required children %s cut away: mandatory-missing reports for %s, further errors %s'
                         % (want, got, _brief([e for e in o.errors if e not in hit])))
            elif [e for e in hit if e['pos'] != exp['pos']]:
                out.fail('%s:wrong-coordinates' % kind, 'repeat starts at pos %s; reported at pos %s' % (exp['pos'], [e['pos'] for e in hit]))
        elif exp['kind'] in ('required-segment-removed', 'required-loop-removed', 'table-first-segment-removed'):
            hit = [e for e in here if e['level'] == 'seg' and e['code'] in codes and e['seg_id'] == exp.get('removed')]
            if not hit:
                out.fail('%s:no-such-error' % kind, 'removed %s; errors in that set: %s' % (exp.get('removed'), _brief(here)))
            elif len(hit) > 1 or [e for e in o.errors if e not in hit]:
                other = [e for e in o.errors if e not in hit[:1]]
                out.fail('%s:reported-more-than-once-or-with-extras' % kind, 'removed %s: %d matching reports, further errors %s' % (exp.get('removed'), len(hit), _brief(other)))
            elif not [e for e in hit if exp['pos'] <= e['pos'] <= exp['pos'] + exp.get('pos_slack', 0)]:
                out.fail('%s:wrong-coordinates%s' % (kind, ':next-is-SE' if exp.get('next_id') == 'SE' else ''), 'removed %s before pos %s; reported at pos %s' % (exp.get('removed'), exp['pos'], [e['pos'] for e in hit]))
        else:
            hit = [e for e in here if e['level'] == 'seg' and e['code'] in codes and e['pos'] == exp['pos']]
            if not hit:
                near = [e for e in here if e['level'] == 'seg' and e['code'] in codes]
                out.fail('%s:%s' % (kind, 'wrong-coordinates' if near else 'no-such-error'),
                         'expected seg code %s at set %s pos %s; errors in that set: %s' % (sorted(codes), exp['st'], exp['pos'], _brief(here)))
    if exp.get('local') and not out.failures:
        other = [e for e in o.errors if not ((e['isa'], e['gs'], e['st']) == (exp['isa'], exp['gs'], exp['st']) and e['pos'] == exp['pos']
                                             and (exp['level'] == 'seg' or e['level'] == 'ele' and (e['ele'] in exp['note_positions'] if exp.get('note_positions') else e['ele'] == exp['ele'])))]
        if other:
            out.fail('%s:collateral-errors' % kind, 'errors away from the injection site: %s' % _brief(other))
    # acknowledgement
    if o.ack and not out.failures and not meta.get('is_ack'):
        try:
            sets = parse_ack(o.ack)
            flat_index = exp['flat_set']
            if flat_index >= len(sets):
                out.fail('%s:ack-set-missing' % kind, '%d AK2 loops' % len(sets))
            else:
                me = sets[flat_index]
                if me['code'] == 'A':
                    out.fail('%s:ack-accepts-faulty-set' % kind, 'AK5/IK5 = A')
                if exp['level'] == 'ele':
                    ak4 = [(a['seg_id'], a['pos'], b) for a in me['ak3'] for b in a['ak4']]
                    okk = [x for x in ak4 if x[1] == str(exp['pos']) and x[2]['code'] in _ack_codes(codes)
                           and (x[2]['ele'] in [str(p) for p in exp['note_positions']] if exp.get('note_positions') else x[2]['ele'] == str(exp['ele']))]
                    if not okk:
                        out.fail('%s:ack-item-missing' % kind, 'no AK4/IK4 for pos %s ele %s code %s; have %s' % (exp['pos'], exp['ele'], sorted(codes), ak4[:6]))
                else:
                    ak3 = [a for a in me['ak3'] if a['code'] in _ack_codes(codes)]
                    if not ak3:
                        out.fail('%s:ack-item-missing' % kind, 'no AK3/IK3 with code %s; have %s' % (sorted(codes), [(a['seg_id'], a['pos'], a['code']) for a in me['ak3']][:6]))
                if exp.get('local'):
                    for k, s in enumerate(sets):
                        if k != flat_index and s['code'] != 'A':
                            out.fail('%s:ack-rejects-sibling-set' % kind, 'set #%d has AK5/IK5 %r' % (k, s['code']))
        except Exception as e:
            out.fail('%s:ack-unreadable' % kind, core.exc_detail(e))
    return out


def _ack_codes(codes):
    return set(codes) | {'I' + c for c in codes} | {c[1:] for c in codes if c.startswith('I')}


def _brief(errs):
    return [(e['level'], e['seg_id'], e['pos'], e['ele'], e['sub'], e['code']) for e in errs[:6]]


def make_case(doc, exp):
    c = c02.make_case(doc)
    c['expect'] = exp
    # index of the faulty set among all sets of the file (acknowledgement order)
    n = -1
    for k, s in enumerate(doc.segs[:exp['seg_index'] + 1]):
        if s.id == 'ST':
            n += 1
    exp['flat_set'] = n
    return c


VARIANTS = 8


def run_entry(entry, n, seed, acc, tier, kinds=None):
    from hypothesis import strategies as st
    kinds = kinds or faults.KINDS

    @st.composite
    def case(draw):
        ch = docgen.HypChooser(draw)
        kw = dict(p_seg=ch.choice([.3, .5, .8]), p_loop=ch.choice([.2, .4]), max_rep=2, shape=(1, 1, 2), max_segs=250)
        doc = None
        for attempt in range(5):
            try:
                doc = docgen.build_doc(entry, ch, **kw)
                break
            except docgen.GenFail:
                kw = dict(kw, p_loop=kw['p_loop'] * .4)
                if attempt >= 2:
                    kw['p_loop'] = 0.0
        if doc is None:
            return {'skip': 'genfail'}
        c02.strip_known(doc, acc)
        base = observe.run_validator(doc.text(), ack=False)
        if base.exc is not None or base.verdict is not True or base.errors:
            return {'skip': 'base-document-not-accepted(C02)'}
        avail = [(k, faults.candidates(doc, k)) for k in kinds]
        avail = [(k, c) for k, c in avail if c]
        multi = []
        # several single-fault variants of the same conformant document (kinds without replacement)
        for t in range(VARIANTS * 2):
            if not avail or len(multi) >= VARIANTS:
                break
            k = ch.integer(0, len(avail) - 1)
            kind, cands = avail[k]
            loc = cands[ch.integer(0, len(cands) - 1)]
            res = faults.inject(doc, kind, loc, ch.seed())
            if res is not None:
                d2, exp = res
                multi.append(make_case(d2, exp))
                if len(avail) > VARIANTS:
                    del avail[k]
        if not multi:
            return {'skip': 'no-applicable-fault'}
        first = multi[0]
        first['more'] = multi[1:]
        return first

    def chk(c):
        if 'skip' in c:
            return core.Outcome(classes=['skipped:' + c['skip']])
        for sub in c.pop('more', []):
            acc.add(sub, check_case(sub))
        return check_case(c)

    core.hyp_collect(case(), chk, n, seed, acc, case_timeout=120)


def run_targets(entry, seed, acc, only_composite_required=False, limit=None):
    """thorough: every segment node of the map is forced into a document and receives every applicable fault kind once"""
    root = mm.load_map(entry['file'])
    nodes = [n for n in mm.walk(root) if n.kind == 'seg' and n.usage != 'N' and n.id not in faults.ENVELOPE and c02._usable(n)]
    if only_composite_required:
        # quick tier slice: segment nodes owning a composite with a required component behind the first one - the
        # (node class x fault kind) pair that random location choice reaches least often
        nodes = [n for n in nodes if any(c.kind == 'comp' and c.usage != 'N' and any(sc.usage == 'R' for sc in c.children[1:]) for c in n.children)]
    if limit and len(nodes) > limit:
        k0 = (seed * 3) % len(nodes)
        nodes = (nodes + nodes)[k0:k0 + limit]
    reached = 0
    for i, node in enumerate(nodes):
        doc = None
        for k in range(4):
            ch = docgen.RandomChooser(seed * 1000003 + i * 131 + k)
            try:
                doc = docgen.build_doc(entry, ch, p_seg=.15, p_loop=.12, max_rep=2, target=node, shape=(1, 1, 2), max_segs=250)
                break
            except docgen.GenFail:
                doc = None
        if doc is None:
            acc.classes['target-genfail'] += 1
            continue
        c02.strip_known(doc, acc)
        base = observe.run_validator(doc.text(), ack=False)
        if base.exc is not None or base.verdict is not True or base.errors:
            acc.classes['skipped:base-document-not-accepted(C02)'] += 1
            continue
        idx = [j for j, s in enumerate(doc.segs) if s.node is node]
        if not idx:
            continue
        reached += 1
        for kind in faults.KINDS:
            cands = [c for c in faults.candidates(doc, kind) if c[0] in idx]
            if not cands:
                continue
            # every location for "required element removed" (few per segment), three rotating ones for the other kinds
            take = cands if kind == 'required-removed' else [cands[(seed + i + q * 7) % len(cands)] for q in range(min(3, len(cands)))]
            done = set()
            for loc in take:
                if loc in done:
                    continue
                done.add(loc)
                res = faults.inject(doc, kind, loc, seed * 31 + i)
                if res is None:
                    continue
                d2, exp = res
                c = make_case(d2, exp)
                o = check_case(c)
                o.classes.append('target')
                acc.add(c, o)
    acc.extra.setdefault('target_nodes', {})[entry['file'] + ('/' + entry['tspc'] if entry.get('tspc') else '')] = '%d/%d' % (reached, len(nodes))


def shards(tier, seed):
    s = []
    for i, e in enumerate(c02.entries()):
        if e['file'].startswith(('830', '841')):
            continue
        s.append({'entry': e, 'i': i, 'n': 150 if tier == 'thorough' else 20})
        if tier == 'thorough':
            s.append({'entry': e, 'i': i, 'targets': True})
        else:
            s.append({'entry': e, 'i': i, 'targets': True, 'slice': True})
    return s


def run_shard(spec, seed, tier):
    acc = core.Acc()
    if spec.get('targets'):
        if spec.get('slice'):
            run_targets(spec['entry'], seed, acc, only_composite_required=True, limit=10)
        else:
            run_targets(spec['entry'], seed, acc)
    else:
        run_entry(spec['entry'], spec['n'], seed * 1000 + spec['i'], acc, tier)
    return acc
