"""C14  Syntax notes (P, R, E, C, L) are evaluated exactly as X12 defines them.

Finite domain, enumerated: every (segment node, note) of every shipped map x every presence pattern of the
mentioned positions x every segment length 0..max+1.  Oracle: own parse of the note text + the X12 definitions.
"""
import itertools
import os
import re

from .. import core, mapmodel

PID = 'C14'
RULE = ('Complete enumeration: for every syntax note of every segment node of every map file named by the index (own XML read), every '
        'segment length L in 0..max(mentioned position)+1 and every presence pattern of the mentioned positions <= L (2^k), a '
        'segment is built (present = "X", or data only in a later component ":X", or in two components "X:Y"; absent = empty or beyond the end) and (1) pyx12.syntax.is_syntax_valid must equal the X12 '
        'definition (P: some but not all; R: none; E: more than one; C: first and any other absent; L: first and all others absent), '
        '(2) segment_if.is_valid with a list-collecting handler must yield exactly one element error carrying that note (code 10 '
        'for E, 2 otherwise) when violated and none when satisfied; (3) for segments with several notes, every presence pattern over the '
        'union of their positions: each note surfaces independently of the others. Non-trivial = pattern violates the note or the segment is '
        'shorter than the highest mentioned position; distinct by (map, node path, note, L, pattern). Both tiers enumerate the whole domain.')
ASSUMPTIONS = ['X12 definitions of the five condition designators as worded in the statement of C14',
               'errors are attributed to a note by the "Syntax Error (<note>)" prefix of their message']


def parse_note(text):
    m = re.match(r'^([PRECL])((?:\d\d){2,})$', text or '')
    if not m:
        return None
    return m.group(1), [int(m.group(2)[i:i + 2]) for i in range(0, len(m.group(2)), 2)]


def violated(kind, idx, present):
    c = sum(1 for i in idx if i in present)
    if kind == 'P':
        return 0 < c < len(idx)
    if kind == 'R':
        return c == 0
    if kind == 'E':
        return c > 1
    if kind == 'C':
        return idx[0] in present and c < len(idx)
    if kind == 'L':
        return idx[0] in present and c == 1
    raise core.HarnessError(kind)


def pyx_segments(m):
    """pyx12 segment nodes in map order"""
    out = []

    def rec(n):
        for k in sorted(n.pos_map):
            for c in n.pos_map[k]:
                if c.is_segment():
                    out.append(c)
                elif c.is_loop():
                    rec(c)
    rec(m)
    return out


def ref_segments(root):
    return [n for n in mapmodel.walk(root) if n.kind == 'seg']


SHAPES = ['X', ':X', 'X:Y']       # how a present element carries its data: simple, only in a later component, in two components


def check_note(pnode, seg_id, note_text, L, present, errh_cls, Segment, is_syntax_valid, shape='X'):
    """-> list of (bucket, detail)"""
    fails = []
    kind, idx = parse_note(note_text)
    vals = [shape if i in present else '' for i in range(1, L + 1)]
    seg = Segment(seg_id + ''.join('*' + v for v in vals) + '~', '~', '*', ':')
    if len(seg) != L:
        raise core.HarnessError('segment length %d != %d' % (len(seg), L))
    want = violated(kind, idx, present)
    try:
        ok, msg = is_syntax_valid(seg, [kind] + idx)
    except Exception as e:
        return [(core.exc_bucket(e, 'is_syntax_valid'), core.exc_detail(e))]
    if (not ok) != want:
        fails.append(('is_syntax_valid:%s:%s' % (kind, 'missed' if want else 'spurious'),
                      '%s %s len=%d present=%r: is_syntax_valid=%r, X12 says violated=%r' % (seg_id, note_text, L, sorted(present), ok, want)))
    errh = errh_cls()
    try:
        pnode.is_valid(seg, errh)
    except Exception as e:
        fails.append((core.exc_bucket(e, 'segment.is_valid'), '%s %s len=%d: %s' % (seg_id, note_text, L, core.exc_detail(e))))
        return fails
    mine = [e for e in errh.err_ele if ('Syntax Error (%s)' % note_text) in (e[1] or '')]
    codes = sorted(e[0] for e in mine)
    expc = (['10'] if kind == 'E' else ['2']) if want else []
    if codes != expc:
        fails.append(('segment-error:%s:%s' % (kind, 'missed' if want and not codes else 'spurious' if not want else 'wrong-code-or-count'),
                      '%s %s len=%d present=%r: element errors for the note %r, expected %r' % (seg_id, note_text, L, sorted(present), codes, expc)))
    return fails


def run_file(fname, acc, only_first_of_text=None):
    import pyx12.map_if
    import pyx12.params
    import pyx12.error_handler
    import pyx12.segment
    from pyx12.syntax import is_syntax_valid
    try:
        root = mapmodel.load_map(fname)
    except Exception as e:
        acc.classes['xml-unreadable'] += 1
        return
    try:
        m = pyx12.map_if.load_map_file(fname, pyx12.params.params())
    except Exception as e:
        acc.classes['map-unloadable(C16)'] += 1
        return
    psegs = pyx_segments(m)
    rsegs = ref_segments(root)
    if [p.id for p in psegs] != [r.id for r in rsegs]:
        acc.fail('map-structure-differs:%s' % fname, {'file': fname}, 'segment node sequence of the loaded map differs from the XML')
        return
    for p, r in zip(psegs, rsegs):
        notes = [t for t in r.syntax if parse_note(t)]
        if len(p.syntax) != len(notes):
            acc.fail('notes-dropped', {'file': fname, 'path': mapmodel.path(r)}, 'XML has %r, loaded node has %r' % (r.syntax, p.syntax))
        run_joint(p, r, fname, acc, pyx12.error_handler.errh_list, pyx12.segment.Segment)
        for t in notes:
            if only_first_of_text is not None:
                key = (t, len(r.children))
                if key in only_first_of_text:
                    continue
                only_first_of_text.add(key)
            kind, idx = parse_note(t)
            top = max(idx)
            for L in range(0, top + 2):
                avail = [i for i in idx if i <= L]
                for k in range(len(avail) + 1):
                    for comb in itertools.combinations(avail, k):
                      present = set(comb)
                      for shape in (SHAPES if present else SHAPES[:1]):
                        fails = check_note(p, r.id, t, L, present, pyx12.error_handler.errh_list, pyx12.segment.Segment, is_syntax_valid, shape)
                        acc.evaluations += 1
                        v = violated(kind, idx, present)
                        case = {'file': fname, 'path': mapmodel.path(r), 'pos': r.pos, 'note': t, 'len': L, 'present': sorted(present)}
                        if shape != 'X':
                            case['shape'] = shape
                            acc.classes['shape:' + shape] += 1
                        if v or L < top:
                            acc.nontrivial.add(core.digest(case))
                        acc.classes['%s:%s' % (kind, 'violated' if v else 'satisfied')] += 1
                        if L < top:
                            acc.classes['short-segment'] += 1
                        for b, d in fails:
                            acc.fail(b, case, d)
                        if len(acc.samples) < 3 and v and acc.evaluations % 211 == 0:
                            acc.samples.append(dict(case, violated=v))


def run_joint(p, r, fname, acc, errh_cls, Segment):
    """Segments with several notes: every presence pattern over the union of their positions (<= 12 positions),
    full length; each note must surface independently of the others."""
    notes = [t for t in r.syntax if parse_note(t)]
    if len(notes) < 2:
        return
    union = sorted(set(i for t in notes for i in parse_note(t)[1]))
    if len(union) > 12:
        union = union[:12]
    top = max(max(parse_note(t)[1]) for t in notes)
    for k in range(len(union) + 1):
        for comb in itertools.combinations(union, k):
            present = set(comb)
            vals = ['X' if i in present else '' for i in range(1, top + 1)]
            seg = Segment(r.id + ''.join('*' + v for v in vals) + '~', '~', '*', ':')
            errh = errh_cls()
            case = {'file': fname, 'path': mapmodel.path(r), 'pos': r.pos, 'joint': notes, 'present': sorted(present)}
            acc.evaluations += 1
            try:
                p.is_valid(seg, errh)
            except Exception as e:
                acc.fail(core.exc_bucket(e, 'segment.is_valid'), case, core.exc_detail(e))
                continue
            nviol = 0
            for t in notes:
                kind, idx = parse_note(t)
                want = violated(kind, idx, present)
                nviol += want
                codes = sorted(e[0] for e in errh.err_ele if ('Syntax Error (%s)' % t) in (e[1] or ''))
                expc = (['10'] if kind == 'E' else ['2']) if want else []
                if codes != expc:
                    acc.fail('joint:%s:%s' % (kind, 'missed' if want and not codes else 'spurious' if not want else 'wrong-code-or-count'), case,
                             'note %s with notes %r present=%r: got %r expected %r' % (t, notes, sorted(present), codes, expc))
            acc.classes['joint:%d-violated' % min(nviol, 3)] += 1
            if nviol >= 2:
                acc.nontrivial.add(core.digest(case))


def check_case(case):
    """replay of one enumerated case"""
    import pyx12.map_if
    import pyx12.params
    import pyx12.error_handler
    import pyx12.segment
    from pyx12.syntax import is_syntax_valid
    out = core.Outcome()
    if 'joint' in case:
        m = pyx12.map_if.load_map_file(case['file'], pyx12.params.params())
        root = mapmodel.load_map(case['file'])
        for p, r in zip(pyx_segments(m), ref_segments(root)):
            if mapmodel.path(r) == case['path'] and r.pos == case['pos']:
                a2 = core.Acc()
                run_joint(p, r, case['file'], a2, pyx12.error_handler.errh_list, pyx12.segment.Segment)
                for b, rec in a2.buckets.items():
                    if rec['case'].get('present') == case['present'] or True:
                        out.fail(b, rec['detail'])
                break
        out.nontrivial = True
        return out
    if 'note' not in case:
        return out
    m = pyx12.map_if.load_map_file(case['file'], pyx12.params.params())
    root = mapmodel.load_map(case['file'])
    for p, r in zip(pyx_segments(m), ref_segments(root)):
        if mapmodel.path(r) == case['path'] and r.pos == case['pos'] and case['note'] in r.syntax:
            for b, d in check_note(p, r.id, case['note'], case['len'], set(case['present']), pyx12.error_handler.errh_list,
                                   pyx12.segment.Segment, is_syntax_valid, case.get('shape', 'X')):
                out.fail(b, d)
            break
    out.nontrivial = True
    return out


def shards(tier, seed):
    files = sorted(mapmodel.map_files())
    if True:   # the whole domain costs a few seconds: both tiers enumerate it completely
        return [{'files': [f], 'mode': 'all'} for f in files]
    s = [{'files': [f], 'mode': 'all'} for i, f in enumerate(files) if i % 2 == seed % 2]
    rest = [f for i, f in enumerate(files) if i % 2 != seed % 2]
    for i in range(0, len(rest), 4):
        s.append({'files': rest[i:i + 4], 'mode': 'distinct'})
    return s


def run_shard(spec, seed, tier):
    acc = core.Acc()
    seen = set() if spec['mode'] == 'distinct' else None
    for f in spec['files']:
        run_file(f, acc, seen)
        if spec['mode'] == 'all':
            acc.extra.setdefault('exhaustive_slices', {})['all-notes:' + f] = 1
    return acc
