"""C06  Every acknowledgement written is itself a complete, well-formed interchange."""
import io

from .. import core, docgen, faults, observe, x12ref, envmodel, mapmodel as mm
from . import genfaulty, c05, c15

PID = 'C06'
RULE = ('Inputs as in C05 (valid / multiply faulty / envelope faults, all transaction maps, 4010 and 5010) plus hostile ones: source '
        'delimiters other than ~ * : with offending values containing ~ * : ^, up to 6 groups, ISA14 = 1 (TA1 requested). Whenever the '
        '997/999 sink is non-empty: it tokenises with a 106-character ISA; an independent envelope recount finds no discrepancy '
        '(SE/GE/IEA counts, ids, unique ST02); pyx12\'s own reader pops no envelope error; the number of AK3/AK4 (IK3/IK4) segments and '
        'their element counts equal what the recorded error tree predicts and AK404/IK404 equals the offending value (so echoed '
        'values neither add nor split anything); fed back to the validator it selects the 997/999 map and, when every value fits '
        'its element definition (independent map reading), is accepted. Non-trivial = acknowledgement with >=1 AK3/IK3, or '
        'non-default source delimiters, or >=3 groups; distinct by digest of the input text.')
ASSUMPTIONS = ['the recorded error tree (observe.flatten) is the reference for how many AK3/AK4 items there must be',
               'element definitions of the 997/999 maps as read by vpx/mapmodel.py decide whether echoed values "fit"']

HOSTILE = ['A~B', 'A*B', 'A:B', 'A^B', '~', 'X*Y*Z', 'P:Q:R', 'A~B*C:D']


# positions whose content is copied from the input (everything else is the acknowledgement's own doing); AK902 is the GE01 received
ECHO = {'AK1': {1, 2, 3}, 'AK2': {1, 2, 3}, 'AK9': {2}, 'AK3': {1, 3}, 'IK3': {1, 3}, 'AK4': {4}, 'IK4': {4}, 'TA1': {1, 2, 3},
        'ISA': {5, 6, 7, 8, 11, 12, 15}, 'GS': {2, 3, 6, 7}, 'CTX': {1, 2, 3, 4, 5, 6}}


def ack_fits(ack_segs, d, fname):
    r = _ack_fits(ack_segs, d, fname)
    return r


def _own(seg_id, pos):
    return pos not in ECHO.get(seg_id, set())


def _ack_fits(ack_segs, d, fname):
    """does every value of the acknowledgement satisfy the element definitions of its map (independent reading)?"""
    root = mm.load_map(fname)
    nodes = {}
    for n in mm.walk(root):
        if n.kind == 'seg':
            nodes.setdefault(n.id, n)
    icvn = d['icvn']
    for s in ack_segs:
        n = nodes.get(s.id)
        if n is None:
            return False, 'segment %s not in %s' % (s.id, fname), (s.id, 0)
        if len(s.elems) > len(n.children):
            return False, '%s has %d elements, its definition %d' % (s.id, len(s.elems), len(n.children)), (s.id, 0)
        for i, c in enumerate(n.children):
            comps = s.elems[i] if i < len(s.elems) else ['']
            if c.kind == 'ele':
                v = comps[0] if s.id == 'ISA' or len(comps) == 1 else d['sub'].join(comps)
                if len(comps) > 1 and s.id != 'ISA':
                    return False, '%s%02d is composite' % (s.id, i + 1), (s.id, i + 1)
                e = c15.expected_element(c, v, 'E', icvn, [])
                if e is None or isinstance(e, tuple) or e:
                    return False, '%s%02d=%r -> %r' % (s.id, i + 1, v, e), (s.id, i + 1)
            else:
                if len(comps) > len(c.children):
                    return False, '%s%02d too many components' % (s.id, i + 1), (s.id, i + 1)
                if all(x == '' for x in comps):
                    if c.usage == 'R':
                        return False, '%s%02d required composite empty' % (s.id, i + 1), (s.id, i + 1)
                    continue
                for j, sc in enumerate(c.children):
                    v = comps[j] if j < len(comps) else ''
                    e = c15.expected_element(sc, v, 'E', icvn, [])
                    if e is None:
                        continue
                    if isinstance(e, tuple) or e:
                        return False, '%s%02d-%d=%r -> %r' % (s.id, i + 1, j + 1, v, e), (s.id, i + 1)
    return True, '', None


def check_case(case):
    out = _check_case(case)
    genfaulty.tag_structural(case, out)
    return out


def _check_case(case):
    out = core.Outcome()
    text = case['text']
    meta = case.get('meta', {})
    f = meta.get('file', '?')
    o = observe.run_validator(text, ack=True)
    out.classes = ['map:' + f, 'faults:%d' % len(meta.get('faults', []))]
    if meta.get('delims'):
        out.classes.append('non-default-source-delimiters')
    if meta.get('hostile'):
        out.classes.append('hostile-echo')
    if meta.get('ta1'):
        out.classes.append('ta1-requested')
    for k_ in ('flood', 'empty-gs06', 'delimiter-in-offending-value'):
        if meta.get(k_):
            out.classes.append(k_)
    out.key = text
    if o.exc is not None:
        out.classes.append('validation-raised')
        return out
    ack = o.ack
    if not ack:
        out.classes.append('no-ack')
        return out
    is999 = meta.get('icvn') == '00501'
    # 1. tokenises as an interchange
    try:
        d, segs = x12ref.tokenize(ack)
    except x12ref.NotX12:
        out.fail('not-an-interchange', repr(ack[:120]))
        return out
    if not segs or segs[-1].id != 'IEA':
        out.fail('incomplete', 'last segment %r; %d segments' % (segs[-1].id if segs else None, len(segs)))
        return out
    flat = [(s.id, [d['sub'].join(e) if s.id != 'ISA' else e[0] for e in s.elems]) for s in segs]
    n3 = sum(1 for s in segs if s.id in ('AK3', 'IK3'))
    out.nontrivial = n3 >= 1 or bool(meta.get('delims')) or meta.get('ngroups', 0) >= 3
    # 2. independent envelope audit
    aud = envmodel.audit(flat)
    if aud:
        out.fail('audit:%s/%s' % aud[0], 'independent recount of the acknowledgement: %r' % aud[:5])
    # 3. pyx12 reader
    try:
        import pyx12.x12file
        rd = pyx12.x12file.X12Reader(io.StringIO(ack))
        errs = []
        for s in rd:
            errs += [(e[0], e[1]) for e in rd.pop_errors()]
        rd.cleanup()
        errs += [(e[0], e[1]) for e in rd.pop_errors()]
        env = [e for e in errs if e[0] in ('isa', 'gs', 'st')]
        if env and not aud:
            out.fail('reader-envelope-error:%s/%s' % env[0], repr(env[:5]))
    except Exception as e:
        out.fail(core.exc_bucket(e, 'reread'), core.exc_detail(e))
    # 4. itemisation count and shape predicted from the recorded error tree
    k3codes = c05.IK3_CODES if is999 else c05.AK3_CODES
    k4codes = c05.IK4_CODES if is999 else c05.AK4_CODES
    exp4 = [e for e in o.errors if e['level'] == 'ele' and e['code'] in k4codes]
    if not is999:
        # an AK3 of the 997 takes 99 AK4 at most: the first 99 of a segment are itemised
        seen_ = {}
        kept_ = []
        for e in exp4:
            k_ = (e['isa'], e['gs'], e['st'], e['pos'])
            seen_[k_] = seen_.get(k_, 0) + 1
            if seen_[k_] <= 99:
                kept_.append(e)
        if len(kept_) != len(exp4):
            out.classes.append('more-than-99-element-errors-on-a-segment')
        exp4 = kept_
    got4 = [s for s in segs if s.id in ('AK4', 'IK4')]
    if len(got4) != len(exp4):
        out.fail('item-count:K4', '%d AK4/IK4 segments, error tree has %d codable element errors' % (len(got4), len(exp4)))
    else:
        for s in got4:
            if len(s.elems) > 4:
                out.fail('item-shape:K4-elements', '%s has %d elements: %r' % (s.id, len(s.elems), s.raw[:80]))
                break
            if len(s.elems) > 3 and len(s.elems[3]) > 1:
                out.fail('item-shape:K404-split', '%s value split into components: %r' % (s.id, s.raw[:80]))
                break
        # a value that contains one of the acknowledgement's own delimiters cannot be echoed and is left out
        bad = '~*:^' if is999 else '~*:'
        vals_exp = sorted(('' if any(c in (e['value'] or '') for c in bad) else (e['value'] or '')) for e in exp4)
        vals_got = sorted((s.elems[3][0] if len(s.elems) > 3 else '') for s in got4)
        if not out.failures and vals_exp != vals_got:
            out.fail('echoed-value', 'offending values %r, AK404/IK404 %r' % (vals_exp[:5], vals_got[:5]))
    nseg_expected = None
    # 5. fed back
    if not out.failures:
        fb = observe.run_validator(ack, ack=False)
        import pyx12.errors
        if fb.exc is not None:
            if isinstance(fb.exc, pyx12.errors.EngineError) and 'Map not found' in str(fb.exc):
                out.fail('fed-back:map-not-found', str(fb.exc)[:200])
            else:
                out.fail(core.exc_bucket(fb.exc, 'fed-back'), core.exc_detail(fb.exc))
        else:
            fname = '999.5010.xml' if is999 else '997.4010.xml'
            try:
                fits, why, where = ack_fits(segs, d, fname)
            except Exception as e:
                raise core.HarnessError('ack_fits: %r' % e)
            out.classes.append('ack-fits' if fits else 'ack-values-do-not-fit')
            if not fits and where is not None and _own(where[0], where[1]) and where[0] not in ('ISA', 'GS'):
                # the misfit is at a position the acknowledgement fills on its own, not with a value copied from the input
                out.fail('own-structure:%s' % where[0], 'the acknowledgement does not fit its own map at a position it generates itself: %s' % why)
            if fits and (fb.verdict is not True or fb.errors):
                e = fb.errors[0] if fb.errors else None
                out.fail('fed-back:rejected:%s' % ('%s/%s/%s' % (e['level'], e['code'], e['seg_id']) if e else 'verdict'),
                         'acknowledgement whose values all fit their definitions is rejected: %s' % (e and (e['msg'] or '')[:200]))
    return out


def flood(doc):
    """every element and component of the widest body segment gets a value that is too long and of the wrong class: a hundred
    and more element errors on one segment (only the leading qualifier stays, so that the segment is still located)"""
    def errs(x):
        # errors a too-long lower-case value draws: not used -> 1; too long, plus code list / number / date / time -> 2
        if x.usage == 'N':
            return 1
        return 2 if (x.dtype == 'ID' and (x.codes or x.ext)) or x.dtype in ('R', 'DT', 'TM', 'D8', 'D6', 'RD8') or x.dtype[0] == 'N' else 1
    best = None
    for s in doc.segs:
        if s.id in faults.ENVELOPE or s.id in ('HL', 'LX'):
            continue
        n_ = sum(sum(errs(x) for x in c.children) if c.kind == 'comp' else errs(c) for c in s.node.children)
        if n_ >= 100 and (best is None or n_ > best[0]):
            best = (n_, s)
    if best is None:
        return False
    s = best[1]
    vals = []
    for c in s.node.children:
        if c.kind == 'comp':
            vals.append(['q' * (min(x.maxl, 90) + 1) for x in c.children])
        else:
            vals.append(['q' * (min(c.maxl, 90) + 1)])
    if s.vals and s.vals[0]:
        vals[0][0] = s.vals[0][0]
    s.vals = vals
    return True


def run_entry(entry, n, seed, acc, tier):
    from hypothesis import strategies as st

    @st.composite
    def case(draw):
        ch = docgen.HypChooser(draw)
        mode = ch.choice(['plain', 'plain', 'hostile', 'hostile', 'many-groups', 'ta1', 'mixed-maps'])
        kw = dict(envelope=.45)
        delims = None
        if mode == 'hostile':
            delims = ch.choice([('|', '!', '>', '`'), ('\n', '|', '\\', '`'), ('\x1c', '\x1d', '\x1e', '\x1f')])
            kw.update(avoid=''.join(delims), hostile_values=HOSTILE, flavor='punct',
                      kinds=['too-long', 'not-in-code-list', 'wrong-char-class', 'extra-element', 'too-short', 'bad-date', 'unknown-segment'])
        elif mode == 'many-groups':
            kw.update(shapes=[(1, 4, 1), (1, 6, 1), (1, 5, 2)], max_faults=3)
        if mode == 'mixed-maps':
            # groups of different maps (acknowledgement groups among them) in one interchange
            res = genfaulty.build_mixed(ch, acc, max_faults=2, **kw)
        else:
            res = genfaulty.build(entry, ch, acc, **kw)
        if res is None:
            return {'skip': 'genfail'}
        doc, exps = res
        meta = genfaulty.meta_of(doc, exps)
        if mode == 'mixed-maps':
            meta['file'] = 'mixed'
            meta['parts'] = [e['file'] for e in doc.parts]
        if mode == 'plain' and ch.chance(.5) and flood(doc):
            meta['flood'] = True
        if mode in ('plain', 'many-groups', 'ta1') and ch.chance(.4):
            # offending values that hold a delimiter of the acknowledgement although the input uses the same delimiters:
            # a simple element sent with components (echoed with the ':' in it), and under 00501 a code holding '^'
            n_ = 0
            sites = [x for x in faults.candidates(doc, 'too-long') if x[2] is None and doc.segs[x[0]].node.children[x[1]].dtype == 'AN']
            if sites and ch.chance(.7):
                i_, ei_, _c = sites[ch.integer(0, len(sites) - 1)]
                doc.segs[i_].vals[ei_] = ['777', 'ELM ST']
                n_ += 1
            sites = faults.candidates(doc, 'not-in-code-list')
            if sites and doc.icvn == '00501' and ch.chance(.7):
                i_, ei_, ci_ = sites[ch.integer(0, len(sites) - 1)]
                doc.segs[i_].vals[ei_][ci_ or 0] = 'M^X'
                n_ += 1
            if n_:
                meta['delimiter-in-offending-value'] = True
        if mode in ('plain', 'many-groups') and ch.chance(.12):
            # the last group has no control number of its own to lend to the acknowledgement
            gs = [x for x in doc.segs if x.id == 'GS']
            ge = [x for x in doc.segs if x.id == 'GE']
            if gs and ge and len(gs[-1].vals) > 5 and len(ge[-1].vals) > 1:
                gs[-1].vals[5] = ['']
                ge[-1].vals[1] = ['']
                meta['empty-gs06'] = True
        if mode == 'ta1' or ch.chance(.15):
            for s in doc.segs:
                if s.id == 'ISA':
                    s.vals[13] = ['1']
            meta['ta1'] = True
        if delims:
            text = doc.text(term=delims[0], ele=delims[1], sub=delims[2], rep=delims[3], eol='' if delims[0] == '\n' else ch.choice(['\n', '\n', '', '\r\n']))
            meta['delims'] = list(delims)
        else:
            text = doc.text()
        return {'text': text, 'meta': meta}

    def chk(c):
        if 'skip' in c:
            return core.Outcome(classes=['skipped:' + c['skip']])
        return check_case(c)

    core.hyp_collect(case(), chk, n, seed, acc, case_timeout=120)


def shards(tier, seed):
    return [{'entry': e, 'i': i, 'n': 250 if tier == 'thorough' else 50} for i, e in enumerate(genfaulty.entries())]


def run_shard(spec, seed, tier):
    acc = core.Acc()
    run_entry(spec['entry'], spec['n'], seed * 1000 + spec['i'], acc, tier)
    return acc
