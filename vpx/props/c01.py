"""C01  Tokenisation is lossless and independent of read chunking and source kind.

Oracle: vpx.x12ref (independent tokeniser/serialiser) applied to the very text that is read.
"""
import io
import os
import tempfile

from .. import core, x12ref

PID = 'C01'
RULE = ('Hypothesis-generated interchange texts: 106-char ISA with drawn delimiter triple (punctuation, 0x1C-0x1F, LF terminator) '
        'and version; 0..40 body segments with random ids/elements/components over printable ASCII (LF allowed inside values), '
        'empty and trailing-empty elements, bare ids, empty segments; after each terminator one of "", LF, CRLF, LFLF, CR; leading '
        'blanks; padding that puts a terminator / separator / CRLF / mid-value exactly on read-buffer boundaries 106+8192k(+-1); '
        'segments longer than one and two buffers. Read through four sources: StringIO, a stream with drawn short reads, a file '
        'named by path, the same file as an open text stream. Non-trivial = >=1 body segment and at least one of: non-default '
        'delimiter, buffer-boundary alignment, long segment, short reads, mixed line breaks, leading blank, trailing empties, '
        'empty segment; distinct by digest of (text, chunk sizes).')
ASSUMPTIONS = ['reference tokeniser vpx/x12ref.py follows the ISA fixed-offset definition',
               'text after the last terminator (unterminated fragment) and blank-only segments are outside the statement and not generated',
               'a bare segment id formats as "ID*~": text equality is not asserted for segments without any non-empty element']

BUF = 8192
PUNCT = list('~*:^|!\\<>+/#@$%&\'"=?;,._-{}[]()`')
CTRL = ['\x1c', '\x1d', '\x1e', '\x1f']
ENVELOPE_IDS = {'ISA', 'IEA', 'GS', 'GE', 'ST', 'SE', 'HL', 'LX', 'CLM'}


class ChunkedStream(object):
    """A text stream whose read(n) returns at most n characters, in drawn portions (legal for TextIOBase.read)."""

    def __init__(self, text, chunks):
        self.text = text
        self.pos = 0
        self.chunks = chunks or [1]
        self.i = 0
        self.closed = False
        self.reads = 0

    def read(self, n=-1):
        if n is None or n < 0:
            n = len(self.text)
        k = self.chunks[self.i % len(self.chunks)]
        self.i += 1
        self.reads += 1
        if self.reads > 2000000:
            raise core.Inconclusive()
        n = max(1, min(n, k)) if n > 0 else 0
        s = self.text[self.pos:self.pos + n]
        self.pos += len(s)
        return s

    def close(self):
        self.closed = True


def read_all(src):
    import pyx12.x12file
    rd = pyx12.x12file.X12Reader(src)
    out = []
    for seg in rd:
        errs = rd.pop_errors()
        out.append((x12ref.snapshot(seg), [(e[0], e[1], e[2]) for e in errs], seg.format()))
    return rd, out


def _expect(text):
    d, segs = x12ref.tokenize(text)
    return d, segs


def _cmp_stream(kind, got, d, ref, out):
    exp = [(s.id, s.elems) for s in ref]
    g = [x[0] for x in got]
    if len(g) != len(exp):
        # classify by what the first missing segment looks like
        i = 0
        while i < min(len(g), len(exp)) and (g[i][0], g[i][1]) == exp[i]:
            i += 1
        why = 'other'
        if len(g) < len(exp) and i == len(g):
            why = 'stops-early'
        out.fail('segment-count:%s:%s' % (why, kind), '%s: yielded %d segments, reference %d; first divergence at #%d %r'
                 % (kind, len(g), len(exp), i, exp[i][0] if i < len(exp) else None))
        return False
    for i, (a, b) in enumerate(zip(g, exp)):
        if (a[0], a[1]) != b:
            out.fail('value:%s' % kind, '%s: segment #%d differs: got %r expected %r' % (kind, i, _short(a), _short(b)))
            return False
    for i, s in enumerate(ref):
        msgs = [e[2] for e in got[i][1]]
        lead = any('leading space' in m for m in msgs)
        trail = any('trailing element terminators' in m for m in msgs)
        if lead != s.lead_blank:
            out.fail('leading-blank-error:%s' % kind, '%s: segment #%d %r lead_blank=%r reported=%r' % (kind, i, s.id, s.lead_blank, lead))
            return False
        if trail != s.trail_sep:
            out.fail('trailing-separator-error:%s' % kind, '%s: segment #%d %r trail_sep=%r reported=%r' % (kind, i, s.id, s.trail_sep, trail))
            return False
    return True


def _short(x):
    s = repr(x)
    return s if len(s) < 300 else s[:300] + '...'


def check_case(case):
    out = core.Outcome()
    text = case['text']
    chunks = case.get('chunks') or [BUF]
    kinds = case.get('kinds') or ['stringio', 'chunked', 'path', 'file']
    try:
        d, ref = _expect(text)
    except x12ref.NotX12:
        raise core.HarnessError('generator produced a non-ISA text')
    streams = {}
    tmp = None
    try:
        for kind in kinds:
            try:
                if kind == 'stringio':
                    rd, got = read_all(io.StringIO(text))
                elif kind == 'chunked':
                    rd, got = read_all(ChunkedStream(text, chunks))
                else:
                    if tmp is None:
                        fd, tmp = tempfile.mkstemp(prefix='vpx_c01_', suffix='.x12')
                        with os.fdopen(fd, 'w', encoding='ascii', newline='') as fh:
                            fh.write(text)
                    if kind == 'path':
                        rd, got = read_all(tmp)
                        if getattr(rd, 'fd_in', None) is not None and getattr(rd, 'need_to_close', False):
                            try:
                                rd.fd_in.close()
                            except Exception:
                                pass
                    else:
                        with open(tmp, 'r', encoding='ascii', newline='') as fh:
                            rd, got = read_all(fh)
            except core.Inconclusive:
                raise
            except Exception as e:
                out.fail(core.exc_bucket(e, 'read:%s' % kind), core.exc_detail(e))
                continue
            streams[kind] = got
            # a file named by path, or opened by the caller without newline translation, holds the same characters
            _cmp_stream(kind, got, d, ref, out)
    finally:
        if tmp is not None:
            try:
                os.unlink(tmp)
            except OSError:
                pass
    # all source kinds identical (segments and tokenisation errors)
    ks = [k for k in kinds if k in streams]
    if ks and not out.failures:
        base = [(x[0], x[1]) for x in streams[ks[0]]]
        for k in ks[1:]:
            if [(x[0], x[1]) for x in streams[k]] != base:
                out.fail('source-kinds-differ:%s' % k, '%s vs %s' % (ks[0], k))
    # format / re-read
    if 'stringio' in streams and not out.failures:
        got = streams['stringio']
        text2 = ''.join(x[2] for x in got)
        has_bare = any(all(c == '' for e in s.elems for c in e) for s in ref)
        if not has_bare:
            exp2 = x12ref.serialize(ref, d)
            if text2 != exp2:
                i = 0
                while i < min(len(text2), len(exp2)) and text2[i] == exp2[i]:
                    i += 1
                out.fail('format-text', 'formatted text differs from reference serialisation at offset %d: %r vs %r'
                         % (i, text2[max(0, i - 20):i + 20], exp2[max(0, i - 20):i + 20]))
        try:
            rd, again = read_all(io.StringIO(text2))
            a = [(x[0][0], x12ref.trim(x[0][1])) for x in got]
            b = [(x[0][0], x12ref.trim(x[0][1])) for x in again]
            if a != b:
                out.fail('reread', 'segments after format+reread differ (%d vs %d)' % (len(a), len(b)))
        except Exception as e:
            out.fail(core.exc_bucket(e, 'reread'), core.exc_detail(e))
    if case.get('twin_sub') and len(text) > x12ref.ISA_LEN:
        twin = dict(case, text=text[:x12ref.ISA_LEN - 2] + case['twin_sub'] + text[x12ref.ISA_LEN - 1:], kinds=['stringio', 'chunked'])
        del twin['twin_sub']
        for b, dt in check_case(twin).failures:
            out.fail(b + ':redeclared', 'after reading the same text with component separator %r: %s' % (text[x12ref.ISA_LEN - 2], dt))
    meta = case.get('meta', {})
    classes = list(meta.get('classes', []))
    out.classes = classes + ['segs:%s' % ('0' if len(ref) <= 1 else '1-10' if len(ref) <= 11 else '11+')]
    out.nontrivial = len(ref) > 1 and bool(classes)
    out.key = [text, chunks]
    return out


# ---------------------------------------------------------------- generator

def case_strategy(tier):
    from hypothesis import strategies as st

    @st.composite
    def gen(draw):
        classes = set()
        icvn = draw(st.sampled_from(['00401', '00501']))
        default = draw(st.integers(0, 3)) == 0
        if default:
            term, ele, sub, rep = '~', '*', ':', '^'
        else:
            pool = PUNCT + CTRL
            picks = draw(st.lists(st.sampled_from(pool), min_size=4, max_size=4, unique=True))
            term, ele, sub, rep = picks
            if draw(st.integers(0, 5)) == 0:
                term = draw(st.sampled_from(['\n', '\n', '\r']))
            classes.add('non-default-delimiters')
        # ISA fields may contain the component (and repetition) separator: the ISA is never component-split
        isa_alpha = [c for c in 'ABCXYZ0189 ' + sub + (rep if icvn == '00501' else '') + '.-' if c not in (ele, term)]
        if draw(st.integers(0, 2)) == 0:
            sender = draw(st.text(isa_alpha, min_size=15, max_size=15))
            receiver = draw(st.text(isa_alpha, min_size=15, max_size=15))
            classes.add('separator-inside-isa') if (sub in sender + receiver) else None
        else:
            sender, receiver = 'SENDER', 'RECEIVER'
        isa = x12ref.make_isa(ele=ele, sub=sub, term=term, icvn=icvn, rep=rep, sender=sender, receiver=receiver)
        forbidden = {term, ele, sub}
        alphabet = [chr(c) for c in range(32, 127) if chr(c) not in forbidden]
        # line-break characters are data when they stand inside a value
        alphabet_lf = alphabet + [c for c in ('\n', '\r') if c not in forbidden]
        val = st.one_of(st.just(''), st.text(alphabet, min_size=1, max_size=8), st.text(alphabet_lf, min_size=1, max_size=20),
                        st.sampled_from(['A', ' ', '  x ', '0', '-1.5']))
        idchars = 'ABCDEFGHIJKLMNOPQRSTUVWXYZ0123456789'

        def seg_id():
            s = draw(st.one_of(st.sampled_from(['NM1', 'REF', 'DTP', 'N3', 'N4', 'SV1', 'BHT', 'PER', 'DMG', 'AMT', 'QTY', 'K3', 'NTE']),
                               st.text(idchars, min_size=2, max_size=3)))
            if s in ENVELOPE_IDS or s[0] in '0123456789':
                s = 'Z' + s[1:]
            if s in ENVELOPE_IDS:
                s = 'ZZ'
            return s

        eols = ['', '\n', '\r\n', '\n\n', '\r', '\n\n\n\n\n\n', '\r\n\r\n\r\n', '\n\r\n\n']
        eol_mode = draw(st.sampled_from(['none', 'lf', 'crlf', 'mixed', 'mixed']))
        if eol_mode == 'mixed':
            classes.add('mixed-line-breaks')

        def eol():
            if eol_mode == 'none':
                return ''
            if eol_mode == 'lf':
                return '\n'
            if eol_mode == 'crlf':
                return '\r\n'
            return draw(st.sampled_from(eols))

        parts = [isa, eol()]
        nseg = draw(st.integers(0, 40 if tier == 'thorough' else 25))
        align_at = draw(st.integers(0, max(0, nseg - 1))) if nseg and draw(st.integers(0, 2)) > 0 else None
        long_at = draw(st.integers(0, max(0, nseg - 1))) if nseg and draw(st.integers(0, 5)) == 0 else None
        isa2_at = draw(st.integers(0, max(0, nseg - 1))) if nseg and draw(st.integers(0, 4)) == 0 else None
        for i in range(nseg):
            if isa2_at == i:
                # a second interchange in the same file whose ISA declares another component (and repetition) separator: the
                # separators of a file are those of its leading header
                other = [c for c in PUNCT if c not in (term, ele, sub, rep)]
                sub2 = draw(st.sampled_from(other))
                rep2 = draw(st.sampled_from([c for c in other if c != sub2]))
                parts.append('IEA' + ele + '0' + ele + '000000001' + term)
                parts.append(eol())
                parts.append(x12ref.make_isa(ele=ele, sub=sub2, term=term, icvn=icvn, rep=rep2, ctl='000000002'))
                parts.append(eol())
                classes.add('second-interchange-other-separators')
                if sub2 not in forbidden:
                    alphabet_x = [sub2, sub2, 'A', '1']
                    parts.append('REF' + ele + ''.join(draw(st.sampled_from(alphabet_x)) for _ in range(5)) + sub + 'Q' + term)
                    parts.append(eol())
            if draw(st.integers(0, 14)) == 0:
                parts.append(term)          # empty segment
                parts.append(eol())
                classes.add('empty-segment')
            lead = ''
            if draw(st.integers(0, 9)) == 0:
                lead = ' ' * draw(st.integers(1, 3))
                classes.add('leading-blank')
            sid = seg_id()
            if lead and draw(st.integers(0, 2)) == 0:
                # only blanks are dropped: a tab or another white-space control character after them belongs to the identifier
                sid = draw(st.sampled_from([c for c in '\t\x0b\x0c\x1c\x1d\x1e\x1f' if c not in forbidden])) + sid
                classes.add('leading-blank-then-whitespace-character')
            nel = draw(st.integers(0, 8))
            els = []
            for _ in range(nel):
                nc = draw(st.sampled_from([1, 1, 1, 2, 3, 4]))
                els.append(sub.join(draw(val) for _ in range(nc)))
            if els and els[-1].replace(sub, '') == '':
                classes.add('trailing-empties')
            if long_at == i:
                n = draw(st.sampled_from([BUF - 50, BUF + 1, 2 * BUF - 200, 2 * BUF + 7, 3 * BUF + 100]))
                els.insert(draw(st.integers(0, len(els))), 'L' * n)
                classes.add('long-segment')
            body = sid + ''.join(ele + e for e in els)
            if not lead and not body[len(sid):].replace(ele, '').replace(sub, '').strip(' '):
                # keep blank-only / all-empty segments as their own (non text-compared) class
                classes.add('no-nonempty-element')
            if align_at == i:
                # pad so that a chosen character of this segment lands on a buffer boundary
                cur = sum(len(p) for p in parts)
                what = draw(st.sampled_from(['term', 'first-sep', 'mid', 'after-term', 'lead', 'empty-after-run']))
                seg_txt = lead + body + term
                if what == 'empty-after-run' and term not in '\r\n':
                    # a run of line breaks that ends on the boundary, then an empty segment, then this (possibly short) segment
                    run = draw(st.sampled_from(['\n' * 6, '\r\n' * 3, '\n' * 9, '\r\n\n\n\r\n']))
                    delta = draw(st.sampled_from([-1, 0, 0, 1]))
                    k = draw(st.integers(1, 2))
                    target = x12ref.ISA_LEN + BUF * k + delta
                    need = target - cur - len('PAD' + ele) - len(term) - len(run)
                    while need < 1:
                        need += BUF
                    parts.append('PAD' + ele + 'p' * need + term)
                    parts.append(run)
                    parts.append(term)
                    if draw(st.booleans()):
                        parts.append('LX' + ele + '1' + term)       # a segment shorter than the run of line breaks
                    classes.add('buffer-boundary:empty-after-run')
                    classes.add('empty-segment')
                    parts.append(lead + body + term)
                    parts.append(eol())
                    continue
                if what == 'term':
                    off = len(seg_txt) - 1
                elif what == 'first-sep':
                    off = len(lead) + len(sid)
                elif what == 'mid':
                    off = len(seg_txt) // 2
                elif what == 'after-term':
                    off = len(seg_txt)
                else:
                    off = 0
                delta = draw(st.sampled_from([-1, 0, 1]))
                k = draw(st.integers(1, 3))
                target = x12ref.ISA_LEN + BUF * k + delta
                pad_seg_overhead = len('PAD' + ele) + len(term)
                need = target - (cur + off) - pad_seg_overhead
                while need < 1:
                    need += BUF
                parts.append('PAD' + ele + 'p' * need + term)
                classes.add('buffer-boundary:' + what)
            parts.append(lead + body + term)
            parts.append(eol())
        text = ''.join(parts)
        nchunks = draw(st.integers(1, 6))
        chunks = draw(st.lists(st.one_of(st.integers(1, 40), st.integers(1, 9000), st.sampled_from([1, 105, 106, 107, BUF - 1, BUF])),
                               min_size=nchunks, max_size=nchunks))
        if min(chunks) < BUF:
            classes.add('short-reads')
        case = {'text': text, 'chunks': chunks, 'meta': {'classes': sorted(classes), 'icvn': icvn, 'delims': [term, ele, sub]}}
        # the same raw text read again in the same process under another declared component separator (one that occurs in
        # its data): what was a separator is now data and the other way round
        cands = sorted(set(c for c in text[x12ref.ISA_LEN:] if c in PUNCT + CTRL and c not in (term, ele, sub, rep, '\n', '\r')))
        if cands and draw(st.integers(0, 2)) == 0:
            case['twin_sub'] = draw(st.sampled_from(cands))
            case['meta']['classes'] = sorted(classes | {'redeclared-component-separator'})
        return case

    return gen()


def run_atheris(spec, seed, acc):
    """coverage-guided campaign (thorough tier): libFuzzer mutates the byte script of vpx/fuzz_c01.py (same grammar as the
    Hypothesis generator, long runs reach the read-buffer boundaries); the oracle is inside the target; a crash input is
    decoded again here and bucketed through check_case"""
    import glob
    import re
    import shutil
    import subprocess
    import sys
    try:
        import atheris      # noqa: F401
    except Exception:
        acc.classes['atheris-not-installed'] += 1
        acc.evaluations += 1
        return
    from .. import fuzz_c01
    wd = tempfile.mkdtemp(prefix='vpx_c01_ath_')
    try:
        os.makedirs(os.path.join(wd, 'corpus'))
        cmd = [sys.executable, '-W', 'ignore', '-m', 'vpx.fuzz_c01', '-runs=%d' % spec['runs'], '-seed=%d' % (seed * 100 + spec['i']),
               '-max_len=200', '-timeout=60', '-artifact_prefix=' + wd + os.sep, os.path.join(wd, 'corpus')]
        p = subprocess.run(cmd, capture_output=True, text=True, cwd=core.VERIF, timeout=3000)
        m = re.search(r'Done (\d+) runs', p.stderr)
        done = int(m.group(1)) if m else 0
        acc.evaluations += done
        acc.classes['atheris-runs'] += done
        m = re.findall(r'cov: (\d+)', p.stderr)
        if m:
            acc.extra.setdefault('atheris_final_coverage', {})['shard-%d' % spec['i']] = int(m[-1])
        arts = glob.glob(os.path.join(wd, 'crash-*')) + glob.glob(os.path.join(wd, 'timeout-*'))
        for a in arts:
            with open(a, 'rb') as fh:
                case = fuzz_c01.decode(fh.read())
            if case is None:
                continue
            out = check_case(case)
            if not out.failures:
                acc.classes['atheris-crash-not-reproduced-in-fresh-state'] += 1
            acc.add(case, out)
        if p.returncode != 0 and not arts:
            acc.classes['atheris-abnormal-exit'] += 1
    finally:
        shutil.rmtree(wd, ignore_errors=True)


def shards(tier, seed):
    n = 16
    per = 400 if tier == 'thorough' else 110
    s = [{'kind': 'hyp', 'shard': i, 'n': per} for i in range(n)]
    s.append({'kind': 'fixtures'})
    if tier == 'thorough':
        s += [{'kind': 'atheris', 'i': 300 + k, 'runs': 15000} for k in range(8)]
    return s


def run_shard(spec, seed, tier):
    acc = core.Acc()
    if spec['kind'] == 'atheris':
        run_atheris(spec, seed, acc)
        return acc
    if spec['kind'] == 'fixtures':
        from . import fixtures
        for name, text in fixtures.all_texts():
            for chunks in ([BUF], [1], [7, 106, 3], [105, 1, 8191]):
                case = {'text': text, 'chunks': chunks, 'meta': {'classes': ['fixture', 'short-reads'] if chunks != [BUF] else ['fixture']}}
                acc.add(case, check_case(case))
        return acc
    core.hyp_collect(case_strategy(tier), check_case, spec['n'], seed * 1000 + spec['shard'], acc)
    return acc
