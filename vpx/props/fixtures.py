"""The repository's own sample documents (test fixtures and examples), as (name, text) pairs."""
import glob
import os

from .. import core


def all_texts():
    out = []
    try:
        from pyx12.test.x12testdata import datafiles
        for k in sorted(datafiles):
            v = datafiles[k]
            if isinstance(v, dict) and isinstance(v.get('source'), str) and v['source'].startswith('ISA'):
                out.append(('testdata:' + k, v['source']))
    except Exception:
        pass
    for pat in ('pyx12/examples/*.txt', 'pyx12/tests/*.txt'):
        for f in sorted(glob.glob(os.path.join(core.REPO, pat))):
            try:
                t = open(f, encoding='ascii').read()
            except Exception:
                continue
            if t.startswith('ISA') and len(t) > 106:
                out.append((os.path.relpath(f, core.REPO), t))
    return out
