"""C20  The normaliser preserves content, is idempotent and repairs counts.

x12norm.main() is called in-process with patched argv/stdout on temporary files (inputs are given by path).
"""
import contextlib
import io
import logging
import os
import sys
import tempfile

from .. import core, x12ref, envmodel

PID = 'C20'
RULE = ('Hypothesis-generated interchanges (1..2 interchanges x 0..3 groups x 0..3 sets x 0..7 body segments incl. HL trees and '
        'composites; drawn delimiter triple; input layout none/LF/CRLF; trailing empty elements) in which IEA01/GE01/SE01 and HL01 '
        'are independently right or wrong (off by one, non-numeric, empty); a quarter of the files also carry trailer-id defects that -f must '
        'leave alone, a third carry a long filler segment that puts a terminator on a read-buffer boundary 106+8192k(+-2). Options drawn from {-e} x {-f} x {stdout, -o file, -i}. '
        'Oracle: reference tokenisation of output = input segments (trailing empties trimmed), exact text layout (one segment per '
        'line with -e, single trailing LF without), norm(norm(x)) = norm(x) byte for byte, and with -f the output passes the '
        'independent envelope audit, pyx12 reader pops no count error, and differs from the input only in the wrong count fields. '
        'Non-trivial = >=1 count defect or non-default delimiters; distinct by digest of (text, options).')
ASSUMPTIONS = ['inputs are readable interchanges whose only defects (if any) are the count fields named in the property',
               'HL02 values refer to true HL ordinals (a wrong HL02 is a different defect, outside "only defects are counts")']

PUNCT = list('~*:^|!\\<>+/#@$%&=?;,_{}[]')


def run_norm(argv):
    """-> (stdout text, exception or None)"""
    import pyx12.scripts.x12norm as xn
    root = logging.getLogger()
    saved = list(root.handlers)
    level = root.level
    old_argv, old_out, old_err = sys.argv, sys.stdout, sys.stderr
    out = io.StringIO()
    err = io.StringIO()
    exc = None
    try:
        sys.argv = ['x12norm'] + argv
        sys.stdout = out
        sys.stderr = err
        xn.main()
    except SystemExit as e:
        if e.code not in (0, None, False):
            exc = e
    except Exception as e:
        exc = e
    finally:
        sys.argv, sys.stdout, sys.stderr = old_argv, old_out, old_err
        for h in list(root.handlers):
            if h not in saved:
                root.removeHandler(h)
        root.setLevel(level)
    return out.getvalue(), exc


def eol_after(d, eol):
    """what --eol puts after each terminator: a line break, unless the terminator already is one ("one per line")"""
    return '\n' if eol and d['term'] != '\n' else ''


def normalise(text, eol, fix, mode, workdir, name='in.x12'):
    src = os.path.join(workdir, name)
    with open(src, 'w', encoding='ascii', newline='') as fh:
        fh.write(text)
    argv = []
    if eol:
        argv.append('-e')
    if fix:
        argv.append('-f')
    dst = os.path.join(workdir, 'out.x12')
    if mode == 'outfile':
        argv += ['-o', dst]
    elif mode == 'inplace':
        argv.append('-i')
    argv.append(src)
    so, exc = run_norm(argv)
    if exc is not None:
        return None, exc, so
    if mode == 'outfile':
        res = open(dst, encoding='ascii', newline='').read() if os.path.exists(dst) else None
    elif mode == 'inplace':
        res = open(src, encoding='ascii', newline='').read()
    else:
        res = so
    return res, None, so


def check_case(case):
    out = core.Outcome()
    text = case['text']
    eol, fix, mode = bool(case['eol']), bool(case['fix']), case['mode']
    meta = case.get('meta', {})
    out.classes = list(meta.get('classes', [])) + ['mode:' + mode, 'eol' if eol else 'no-eol', 'fix' if fix else 'no-fix']
    out.nontrivial = bool(meta.get('defects')) or 'non-default-delimiters' in meta.get('classes', [])
    out.key = [text, eol, fix, mode]
    d, ref = x12ref.tokenize(text)
    if case.get('text2'):
        out.classes.append('two-input-files')
        check_multi(case, out)
        if out.failures:
            return out
    with tempfile.TemporaryDirectory(prefix='vpx_c20_') as wd:
        res, exc, so = normalise(text, eol, fix, mode, wd, case.get('name') or 'in.x12')
        if exc is not None:
            out.fail(core.exc_bucket(exc, 'main'), core.exc_detail(exc))
            return out
        if res is None:
            out.fail('no-output:%s' % mode, 'no output produced')
            return out
        if mode != 'stdout' and so.strip():
            out.fail('stdout-noise:%s' % mode, so[:100])
        # 1. content
        try:
            d2, got = x12ref.tokenize(res)
        except x12ref.NotX12:
            out.fail('output-not-x12:%s' % mode, repr(res[:80]))
            return out
        if (d2['ele'], d2['sub'], d2['term']) != (d['ele'], d['sub'], d['term']):
            out.fail('delimiters-changed', '%r -> %r' % (d, d2))
            return out
        exp = [(s.id, s.trimmed()) for s in ref]
        g = [(s.id, s.trimmed()) for s in got]
        if fix:
            # expected repairs
            exp = _repair(exp, d)
        if g != exp:
            i = 0
            while i < min(len(g), len(exp)) and g[i] == exp[i]:
                i += 1
            out.fail('content:%s' % ('fix' if fix else 'plain'),
                     'segment #%d: output %r expected %r' % (i, g[i] if i < len(g) else None, exp[i] if i < len(exp) else None))
            return out
        # 2. layout
        want = x12ref.serialize(exp, d, eol_after(d, eol)) + ('' if eol else '\n')
        if res != want:
            i = 0
            while i < min(len(res), len(want)) and res[i] == want[i]:
                i += 1
            out.fail('layout:%s' % ('eol' if eol else 'no-eol'), 'offset %d: %r vs %r' % (i, res[max(0, i - 15):i + 15], want[max(0, i - 15):i + 15]))
            return out
        # 3. idempotence
        res2, exc2, _ = normalise(res, eol, fix, mode, wd)
        if exc2 is not None:
            out.fail(core.exc_bucket(exc2, 'second-pass'), core.exc_detail(exc2))
        elif res2 != res:
            out.fail('not-idempotent', 'second pass changed the text')
        # 4. repaired envelope
        if fix and not meta.get('others'):
            flat = [(sid, [d['sub'].join(e) if sid != 'ISA' else e[0] for e in els]) for sid, els in g]
            aud = [x for x in envmodel.audit(flat) if x[1] in ('021', '5', '4', 'HL1')]
            if aud:
                out.fail('count-not-repaired:%s' % aud[0][1], 'audit of -f output: %r' % aud)
            try:
                import pyx12.x12file
                rd = pyx12.x12file.X12Reader(io.StringIO(res))
                errs = []
                for s in rd:
                    errs += [e[1] for e in rd.pop_errors()]
                bad = [c for c in errs if c in ('021', '5', '4', 'HL1')]
                if bad:
                    out.fail('reader-still-complains', repr(bad))
            except Exception as e:
                out.fail(core.exc_bucket(e, 'reread'), core.exc_detail(e))
    return out


def _repair(segs, d):
    """What -f must produce: true counts in IEA01/GE01/SE01/HL01 where they were wrong, nothing else altered."""
    out = []
    n_gs = n_st = n_seg = n_hl = 0
    for sid, els in segs:
        els = [list(e) for e in els]

        def fix1(true):
            if not els:
                els.append([''])
            if envmodel.toint(els[0][0] if els[0] else None) != true or len(els[0]) != 1:
                els[0] = [str(true)]

        if sid == 'ISA':
            n_gs = 0
        elif sid == 'GS':
            n_gs += 1
            n_st = 0
        elif sid == 'ST':
            n_st += 1
            n_seg = 1
            n_hl = 0
        elif sid == 'SE':
            fix1(n_seg + 1)
        elif sid == 'GE':
            fix1(n_st)
        elif sid == 'IEA':
            fix1(n_gs)
        else:
            n_seg += 1
            if sid == 'HL':
                n_hl += 1
                fix1(n_hl)
        out.append((sid, els))
    return out


def expected_text(text, eol, fix):
    d, ref = x12ref.tokenize(text)
    exp = [(s.id, s.trimmed()) for s in ref]
    if fix:
        exp = _repair(exp, d)
    return x12ref.serialize(exp, d, eol_after(d, eol)) + ('' if eol else '\n')


def check_multi(case, out):
    """two input files in one invocation: each must be normalised as if it were alone"""
    eol, fix, mode = bool(case['eol']), bool(case['fix']), case['mode']
    texts = [case['text'], case['text2']]
    with tempfile.TemporaryDirectory(prefix='vpx_c20m_') as wd:
        paths = []
        for i, t in enumerate(texts):
            p_ = os.path.join(wd, 'in%d.x12' % i)
            with open(p_, 'w', encoding='ascii', newline='') as fh:
                fh.write(t)
            paths.append(p_)
        dst = os.path.join(wd, 'out.x12')
        names = list(paths)
        if case.get('with_dir'):
            # a directory among the names (a pattern such as in/* matches it too): it is no input, the files after it still are
            os.mkdir(os.path.join(wd, 'archive'))
            names.insert(1, os.path.join(wd, 'archive'))
            out.classes.append('directory-among-the-inputs')
        if case.get('with_junk'):
            # ... nor is a file that holds no interchange (empty, or some text)
            junk = os.path.join(wd, 'notes.txt')
            with open(junk, 'w', encoding='ascii', newline='') as fh:
                fh.write('' if case['with_junk'] == 1 else 'not an interchange\n')
            names.insert(1, junk)
            out.classes.append('non-interchange-among-the-inputs')
        argv = (['-e'] if eol else []) + (['-f'] if fix else []) + (['-i'] if mode == 'inplace' else []) + (['-o', dst] if mode == 'outfile' else []) + names
        so, exc = run_norm(argv)
        if exc is not None:
            out.fail(core.exc_bucket(exc, 'main-multi'), core.exc_detail(exc))
            return
        want = [expected_text(t, eol, fix) for t in texts]
        # what goes to one destination ends with one line feed (without --eol), not one per input: the output of the
        # normaliser, normalised again, must not change
        both = ''.join(want) if eol else ''.join(w[:-1] for w in want) + '\n'
        if mode == 'inplace':
            got = [open(p_, encoding='ascii', newline='').read() for p_ in paths]
            for i in range(2):
                if got[i] != want[i]:
                    out.fail('multi-file:inplace:file-%d' % i, 'file #%d of 2 (lengths %d, %d): result has %d characters, expected %d'
                             % (i, len(texts[0]), len(texts[1]), len(got[i]), len(want[i])))
                    return
        elif mode == 'outfile':
            # the named output receives what standard output would have received
            got = open(dst, encoding='ascii', newline='').read() if os.path.exists(dst) else ''
            if got != both:
                out.fail('multi-file:outfile', 'the output file has %d characters, the two normalisations together %d (the second alone %d)'
                         % (len(got), len(both), len(want[1])))
        else:
            if so != both:
                out.fail('multi-file:stdout', 'stdout has %d characters, the two normalisations together %d' % (len(so), len(both)))
        if mode != 'inplace' and not out.failures:
            again, exc2, _ = normalise(both, eol, fix, 'stdout', wd, 'both.x12')
            if exc2 is None and again != both:
                out.fail('multi-file:not-idempotent', 'the combined output has %d characters, normalised again %d' % (len(both), len(again or '')))


def strategy(tier):
    from hypothesis import strategies as st

    @st.composite
    def gen(draw):
        classes = set()
        defects = []
        if draw(st.integers(0, 2)) == 0:
            term, ele, sub = '~', '*', ':'
        else:
            term, ele, sub = draw(st.lists(st.sampled_from(PUNCT), min_size=3, max_size=3, unique=True))
            classes.add('non-default-delimiters')
        icvn = draw(st.sampled_from(['00401', '00501']))
        rep = [c for c in '^`<|' if c not in (term, ele, sub)][0]
        lay = draw(st.sampled_from(['', '\n', '\r\n']))
        vals = st.sampled_from(['A', 'X1', '100', 'NAME X', '12.5', 'HC', 'A\rB', 'L1\nL2'])
        if draw(st.integers(0, 7)) == 0:
            # a line break as the terminator: the file already has one segment per line
            term = draw(st.sampled_from(['\n', '\n', '\r']))
            lay = '' if term == '\n' else draw(st.sampled_from(['', '\n']))
            vals = st.sampled_from(['A', 'X1', '100', 'NAME X', '12.5', 'HC'])
            classes.add('line-break-terminator')

        def cnt(true, what):
            if draw(st.integers(0, 3)) == 0:
                defects.append(what)
                return draw(st.sampled_from([str(true + 1), str(true + 7), 'X', '', '0' if true != 0 else '1']))
            return str(true)

        others = []
        allow_other = draw(st.integers(0, 3)) == 0

        def other(good, bad, what):
            # a defect that is not a count: -f must leave the segment's other values alone
            if allow_other and draw(st.integers(0, 3)) == 0:
                others.append(what)
                return bad
            return good

        align = draw(st.integers(0, 2)) == 0
        segs = []
        for ii in range(draw(st.sampled_from([1, 1, 2]))):
            ictl = '%09d' % (ii + 1)
            segs.append(x12ref.make_isa(ele=ele, sub=sub, term=term, icvn=icvn, rep=rep, ctl=ictl)[:-1])
            ngs = draw(st.sampled_from([0, 1, 1, 2, 3]))
            for gi in range(ngs):
                gctl = other(str(gi + 1), '1', 'GS06-dup') if gi > 0 else str(gi + 1)
                segs.append(ele.join(['GS', 'HC', 'S', 'R', '20040101', '1230', gctl, 'X', '004010X098A1']))
                nst = draw(st.sampled_from([0, 1, 1, 2, 3]))
                for si in range(nst):
                    sctl = other('%04d' % (si + 1), '0001', 'ST02-dup') if si > 0 else '%04d' % (si + 1)
                    segs.append(ele.join(['ST', '837', sctl]))
                    nb = draw(st.integers(0, 7))
                    hl = 0
                    for b in range(nb):
                        k = draw(st.sampled_from(['HL', 'HL', 'REF', 'SV1', 'NM1']))
                        if align and b == 0 and 'aligned' not in classes:
                            cur = sum(len(x) + len(term) + len(lay) for x in segs)
                            nxt = 'NTE' + ele + 'ADD' + ele
                            target = 106 + 8192 * draw(st.integers(1, 2)) + draw(st.sampled_from([-2, -1, 0, 1]))
                            # what lands on the edge of the read buffer: the terminator, or a blank / separator inside the value
                            tail = draw(st.sampled_from(['', '', ' ZZ', 'Z ZZ', ele + 'ZZ', 'Z' + sub + 'ZZ']))
                            j = 1 if tail[:1] == 'Z' else 0         # index, in the tail, of the blank / separator
                            need = target - cur - len(nxt) - 1 - j
                            while need < 1:
                                need += 8192
                            segs.append(nxt + 'p' * need + tail)
                            classes.add('aligned')
                            if tail:
                                classes.add('aligned-inside-value')
                            continue
                        if k == 'HL':
                            hl += 1
                            parent = '' if hl == 1 else str(draw(st.integers(max(1, hl - 2), hl - 1)))
                            segs.append(ele.join(['HL', cnt(hl, 'HL01'), parent, '20', '1']))
                        elif k == 'SV1':
                            segs.append(ele.join(['SV1', sub.join(['HC', draw(vals)]), draw(vals), 'UN', '1']))
                        elif k == 'REF':
                            s = ele.join(['REF', 'EA', draw(vals)])
                            if draw(st.integers(0, 4)) == 0:
                                s += ele * draw(st.integers(1, 2))
                                classes.add('trailing-empties')
                            segs.append(s)
                        else:
                            segs.append(ele.join(['NM1', '85', '2', draw(vals), '', '', '', '', 'XX', draw(vals)]))
                    segs.append(ele.join(['SE', cnt(nb + 2, 'SE01'), other(sctl, '9999', 'SE02')]))
                segs.append(ele.join(['GE', cnt(nst, 'GE01'), other(gctl, '77', 'GE02')]))
            segs.append(ele.join(['IEA', cnt(ngs, 'IEA01'), other(ictl, '000000099', 'IEA02')]))
        text = ''.join(s + term + lay for s in segs)
        fix = draw(st.booleans()) or bool(defects) and draw(st.booleans())
        if others:
            classes.add('non-count-defect')
        text2 = None
        if draw(st.integers(0, 3)) == 0:
            # a second, shorter input file for the same invocation: a prefix of the first up to an IEA, or a tiny one
            cut = [i for i, s_ in enumerate(segs) if s_.startswith('IEA') and i < len(segs) - 1]
            if cut:
                text2 = ''.join(s_ + term + lay for s_ in segs[:cut[0] + 1])
            else:
                isa2 = x12ref.make_isa(ele=ele, sub=sub, term=term, icvn=icvn, rep=rep, ctl='000000009')[:-1]
                text2 = ''.join(s_ + term + lay for s_ in [isa2, ele.join(['IEA', '0', '000000009'])])
        # the input is named by path: a name is a name, whatever characters it contains
        name = draw(st.sampled_from(['in.x12', 'in.x12', 'claims[1].x12', 'a b.x12', 'in?.x12', 'x*y.x12', '[ab].x12']))
        if name != 'in.x12':
            classes.add('file-name-with-pattern-characters')
        return {'text': text, 'eol': draw(st.booleans()), 'fix': fix, 'mode': draw(st.sampled_from(['stdout', 'outfile', 'inplace'])),
                'text2': text2, 'name': name, 'with_dir': bool(text2) and draw(st.integers(0, 2)) == 0,
                'with_junk': draw(st.sampled_from([0, 0, 0, 1, 2])) if text2 else 0, 'meta': {'classes': sorted(classes), 'defects': defects, 'others': others}}

    return gen()


def shards(tier, seed):
    per = 600 if tier == 'thorough' else 500
    return [{'shard': i, 'n': per} for i in range(16)]


def run_shard(spec, seed, tier):
    acc = core.Acc()
    core.hyp_collect(strategy(tier), check_case, spec['n'], seed * 1000 + spec['shard'], acc)
    return acc
