"""C18  Results are a function of the document and parameters alone.

Histories of operations over a pool of documents are run in one interpreter (shared parameter object, reused
results of earlier calls lying around); every result must equal the one a FRESH interpreter computes for that
document and those parameters alone (subprocess baselines, taken under two PYTHONHASHSEED values).
"""
import hashlib
import io
import json
import os
import re
import subprocess
import sys
import tempfile

from .. import core, docgen, observe, x12ref, mapmodel as mm
from . import genfaulty, c02

PID = 'C18'
RULE = ('Per shard a pool of 8 documents (generated documents of mixed maps and versions, valid and faulty, plus repository fixtures) and '
        'Hypothesis-drawn histories of 4..10 operations over it: validate under a drawn sink subset / charset / external-code '
        'exclusion with a shared or a fresh params object, iterate with the context reader (copying every yielded tree and listing '
        'loop start/end events), convert XML back to X12. Each result (verdict, error tuples, acknowledgement body, HTML without the '
        'date line, XML, context events, converted X12) must equal the baseline computed by a fresh interpreter for that document '
        'and those settings alone; baselines are taken under PYTHONHASHSEED=0 and 1 and must agree with each other. Non-trivial = '
        'history of >=3 operations touching >=2 map types and repeating an earlier document; distinct by digest of the history.')
ASSUMPTIONS = ['acknowledgement dates/times/control numbers and the HTML date line are normalised away', 'baselines run the same worker code (vpx/props/c18.py as a script) in a subprocess']


# ------------------------------------------------------------------ one operation -> JSON-able result

def norm_ack(ack):
    if not ack:
        return ack
    try:
        d, segs = x12ref.tokenize(ack)
    except Exception:
        return ack
    out = []
    for s in segs:
        if s.id in ('ISA', 'GS', 'ST', 'SE', 'GE', 'IEA'):
            out.append(s.id)
            continue
        out.append(s.raw)
    return out


def norm_html(h):
    if not h:
        return h
    return re.sub(r'<h3>Analysis Date:[^<]*</h3>', '<h3>DATE</h3>', h)


def do_op(text, op, shared_param=None):
    """op = {kind, sinks, charset, exclude, loop_id}"""
    import pyx12.params
    observe.quiet()
    kind = op['kind']
    if shared_param is not None:
        param = shared_param
        param.set('charset', op.get('charset') or 'E')
        param.set('exclude_external_codes', op.get('exclude'))
    else:
        param = pyx12.params.params()
        param.set('charset', op.get('charset') or 'E')
        if op.get('exclude'):
            param.set('exclude_external_codes', op.get('exclude'))
    res = {}
    if kind in ('validate', 'convert'):
        s = op.get('sinks', [1, 1, 1]) if kind == 'validate' else [0, 0, 1]
        o = observe.run_validator(text, ack=bool(s[0]), html=bool(s[1]), xml=bool(s[2]), param=param)
        if o.exc is not None:
            res['exc'] = '%s: %s' % (type(o.exc).__name__, str(o.exc)[:200])
            return res
        res['verdict'] = o.verdict
        res['errors'] = [list(map(str, t)) for t in observe.err_tuples(o.errors)]
        res['messages'] = sorted((e['msg'] or '') for e in o.errors)
        res['ack'] = norm_ack(o.ack)
        res['html'] = norm_html(o.html)
        res['xml'] = o.xml
        if kind == 'convert' and o.xml:
            import pyx12.xmlx12_simple
            fd, tmp = tempfile.mkstemp(prefix='vpx_c18_', suffix='.xml')
            try:
                with os.fdopen(fd, 'w', encoding='utf-8') as fh:
                    fh.write(o.xml)
                buf = io.StringIO()
                try:
                    pyx12.xmlx12_simple.convert(tmp, buf)
                    res['x12'] = buf.getvalue()
                except Exception as e:
                    res['x12'] = 'EXC %s' % type(e).__name__
            finally:
                os.unlink(tmp)
    elif kind == 'context':
        import pyx12.x12context
        import pyx12.error_handler
        ev = []
        try:
            rd = pyx12.x12context.X12ContextReader(param, pyx12.error_handler.errh_null(), io.StringIO(text))
            for node in rd.iter_segments(op.get('loop_id')):
                if len(ev) > 300000:
                    ev.append('TRUNCATED: event list grows without bound')
                    break
                if node.type == 'loop':
                    c = node.copy()
                    for e in c.iterate_loop_segments():
                        if e['type'] == 'seg':
                            ev.append('seg ' + e['segment'].format())
                        else:
                            ev.append('%s %s' % (e['type'], e['id']))
                else:
                    for e in node.iterate_loop_segments():
                        if e['type'] == 'seg':
                            ev.append('seg ' + e['segment'].format())
                        else:
                            ev.append('%s %s' % (e['type'], e['id']))
                    ev.append('errors %d' % len(getattr(node, 'errors', []) or []))
        except Exception as e:
            ev.append('EXC %s: %s' % (type(e).__name__, str(e)[:120]))
        res['events'] = ev
    return res


def op_key(op):
    return json.dumps({k: op.get(k) for k in ('kind', 'sinks', 'charset', 'exclude', 'loop_id')}, sort_keys=True)


# ------------------------------------------------------------------ baselines in fresh interpreters

def baseline(text, ops, hashseed):
    """run the ops on this document alone, each in the same fresh interpreter but each with fresh objects"""
    env = dict(os.environ)
    env['PYTHONHASHSEED'] = str(hashseed)
    payload = json.dumps({'text': text, 'ops': ops})
    try:
        p = subprocess.run([sys.executable, '-W', 'ignore', '-m', 'vpx.props.c18'], input=payload, capture_output=True, text=True, env=env,
                           cwd=core.VERIF, timeout=240)
    except subprocess.TimeoutExpired:
        raise core.Inconclusive()          # a baseline that does not finish is not a verdict about history independence
    if p.returncode != 0:
        if 'MemoryError' in p.stderr or 'SystemError' in p.stderr or p.returncode < 0:     # the capped fresh interpreter itself ran out of memory
            raise core.Inconclusive()
        raise core.HarnessError('baseline worker failed: %s' % p.stderr[-800:])
    return json.loads(p.stdout)


def worker_main():
    try:
        import resource
        resource.setrlimit(resource.RLIMIT_AS, (1024 ** 3, 1024 ** 3))    # a runaway baseline must not take the machine down
    except Exception:
        pass
    req = json.loads(sys.stdin.read())
    out = {}
    for op in req['ops']:
        out[op_key(op)] = do_op(req['text'], op)
    sys.stdout.write(json.dumps(out))


# ------------------------------------------------------------------ check

def diff_keys(a, b):
    return sorted(k for k in set(a) | set(b) if a.get(k) != b.get(k))


MEMORY_BUCKET = 'history-dependence:memory-exhausted'


def _replay_shard(case):
    """a shard that died of memory exhaustion is replayed as a whole, in a capped subprocess"""
    out = core.Outcome()
    code = ('import sys, resource\n'
            'resource.setrlimit(resource.RLIMIT_AS, (2 * 1024 ** 3, 2 * 1024 ** 3))\n'
            'from vpx.props import c18\n'
            'try:\n'
            '    acc = c18.run_shard(%r, %r, %r)\n'
            'except MemoryError:\n'
            '    sys.exit(77)\n'
            'sys.exit(78 if any("memory-exhausted" in b for b in acc.buckets) else 0)\n') % (case['replay_shard'], case['seed'], case['tier'])
    p = subprocess.run([sys.executable, '-W', 'ignore', '-c', code], cwd=core.VERIF, capture_output=True, text=True)
    if p.returncode in (77, 78) or 'MemoryError' in p.stderr:
        out.fail(MEMORY_BUCKET, 'shard %r (seed %r) ran out of its 2 GiB address space again' % (case['replay_shard'], case['seed']))
    out.nontrivial = True
    return out


def check_case(case):
    """case: {docs: [texts], history: [[doc index, op, shared?], ...], ops: [distinct ops]}"""
    import pyx12.params
    if 'replay_shard' in case:
        return _replay_shard(case)
    out = core.Outcome()
    docs = case['docs']
    hist = case['history']
    ops = case['ops']
    base = {}
    for di in sorted(set(h[0] for h in hist)):
        need = []
        for h in hist:
            if h[0] == di and h[1] not in need:
                need.append(h[1])
        b0 = baseline(docs[di], need, 0)
        # the document that carries several different codes at one place is tried under more hash seeds
        for hs in ((1, 2) if case.get('doc_types', [''] * (di + 1))[di].endswith('+several-codes-at-one-place') else (1,)):
            b1 = baseline(docs[di], need, hs)
            for op in need:
                k = op_key(op)
                if b0[k] != b1[k]:
                    out.fail('hash-seed-dependence:%s:%s' % (op['kind'], '+'.join(diff_keys(b0[k], b1[k]))),
                             'document #%d, %s: results under PYTHONHASHSEED=0 and =%d differ in %r' % (di, k, hs, diff_keys(b0[k], b1[k])))
        for op in need:
            base[(di, op_key(op))] = b0[op_key(op)]
    shared = pyx12.params.params()
    seen = set()
    for step, (di, op, use_shared) in enumerate(hist):
        try:
            got = do_op(docs[di], op, shared if use_shared else None)
            # results go through JSON in the baseline: normalise the same way
            got = json.loads(json.dumps(got))
        except MemoryError:
            core.release_reserve()
            out.fail('history-dependence:%s:memory-exhausted' % op['kind'], 'step %d (document #%d, %s) ran out of memory (2 GiB cap) in the history but not in a fresh interpreter' % (step, di, op_key(op)))
            break
        exp = base[(di, op_key(op))]
        if got != exp:
            dk = diff_keys(got, exp)
            out.fail('history-dependence:%s:%s' % (op['kind'], '+'.join(dk)),
                     'step %d (document #%d, %s, %s params): differs from the fresh-interpreter result in %r; earlier steps: %s'
                     % (step, di, op_key(op), 'shared' if use_shared else 'fresh', dk, [(h[0], h[1]['kind']) for h in hist[:step]]))
            break
        seen.add(di)
    kinds = set(case.get('doc_types', []))
    repeats = len(hist) > len(set(h[0] for h in hist))
    out.nontrivial = len(hist) >= 3 and len(set(case['doc_types'][h[0]] for h in hist)) >= 2 and repeats
    out.classes = ['ops:%d' % len(hist)] + sorted(set('kind:' + h[1]['kind'] for h in hist))
    if any(h[2] for h in hist):
        out.classes.append('shared-params')
    if len(set((h[1].get('exclude'), h[1].get('charset')) for h in hist)) > 1:
        out.classes.append('param-variation')
    out.key = [hashlib.md5(''.join(docs).encode('utf-8', 'replace')).hexdigest(), hist]
    return out


# ------------------------------------------------------------------ generation

def make_pool(seed, shard, size=8):
    from . import fixtures
    entries = genfaulty.entries(exclude_ack=False)
    docs = []
    types = []
    lids = []
    exts = []
    k = 0
    _cross_map_pair(seed, shard, docs, types, lids, exts)
    size += len(docs)
    while len(docs) < size - 2 and k < 60:
        e = entries[(seed * 7 + shard * 3 + k * 5) % len(entries)]
        ch = docgen.RandomChooser(seed * 100003 + shard * 1009 + k)
        k += 1
        res = genfaulty.build(e, ch, None, max_faults=3, envelope=.2, shapes=[(1, 1, 1), (1, 1, 2), (1, 2, 1)])
        if res is None:
            continue
        doc, exps = res
        # a value outside an external code set, so that the exclusion setting matters
        from .. import faults
        ext_sets = []
        cands = [c for c in faults.candidates(doc, 'not-in-code-list')]
        cands = [c for c in cands if _ext_of(doc, c)]
        if cands:
            loc = cands[ch.integer(0, len(cands) - 1)]
            r2 = faults.inject(doc, 'not-in-code-list', loc, ch.seed())
            if r2 is not None:
                ext_sets.append(_ext_of(doc, loc))
                doc = r2[0]
        exts.append(ext_sets)
        _single_ext_index = len(exts) - 1
        # one free-text value that is legal under one interchange version only (backtick: 5010 extended set), the
        # same text in every pool document, so that a verdict remembered across versions would show
        for sg in doc.segs:
            if sg.id in ('ISA', 'GS', 'ST', 'SE', 'GE', 'IEA'):
                continue
            hit = False
            for ei, c in enumerate(sg.node.children):
                if c.kind == 'ele' and c.dtype == 'AN' and not c.codes and not c.ext and c.maxl >= 3 and c.minl <= 3 \
                        and ei > 0 and ei < len(sg.vals) and sg.vals[ei][0] != '':
                    sg.vals[ei] = ['P`Q']
                    hit = True
                    break
            if hit:
                break
        cands = sorted({l.id for s in doc.segs for l, n in s.chain if l.children and l.children[0].kind == 'seg'})
        # sibling pair: the same document with two different faults at ONE element - one that echoes a value (too long),
        # one that does not (required element removed): what the first leaves behind must not show in the second
        both = [c for c in faults.candidates(doc, 'required-removed') if c in set(faults.candidates(doc, 'too-long'))]
        if both and len(docs) < size - 3:
            loc = both[ch.integer(0, len(both) - 1)]
            ra = faults.inject(doc, 'too-long', loc, ch.seed())
            rb = faults.inject(doc, 'required-removed', loc, ch.seed())
            if ra is not None and rb is not None:
                del exts[_single_ext_index]
                for dd in (ra[0], rb[0]):
                    docs.append(dd.text())
                    types.append(e['file'])
                    lids.append(cands)
                    exts.append(list(ext_sets))
                continue
        docs.append(doc.text())
        types.append(e['file'])
        lids.append(cands)
    # one document in which one place carries several different codes: a segment with a leading blank AND a trailing separator
    # (two segment-level codes), an interchange header with two invalid qualifiers and a TA1 requested (two interchange-level
    # codes) - whatever order such codes are written in must not depend on the interpreter's hash seed
    for j_, t_ in enumerate(docs):
        lines = t_.split('~\n')
        body = [i for i, ln in enumerate(lines) if ln[:3] not in ('ISA', 'GS*', 'ST*', 'SE*', 'GE*', 'IEA') and ln and not ln.startswith(' ')]
        if len(body) > 2 and lines[0].startswith('ISA*') and '*ZZ*SENDER' in lines[0] and '*0*P*' in lines[0]:
            i = body[len(body) // 2]
            lines[i] = ' ' + lines[i] + '*'
            lines[0] = lines[0].replace('*ZZ*SENDER', '*XX*SENDER').replace('*ZZ*RECEIVER', '*YY*RECEIVER').replace('*0*P*', '*1*P*')
            docs[j_] = '~\n'.join(lines)
            types[j_] = types[j_] + '+several-codes-at-one-place'
            break
    fx = fixtures.all_texts()
    for j in range(size - len(docs)):
        if not fx:
            break
        name, t = fx[(seed + shard * 5 + j * 11) % len(fx)]
        docs.append(t)
        types.append('fixture:' + name)
        lids.append(['2000A', '2300', 'ST_LOOP', '2000'])
        exts.append(['states'])
    return docs, types, lids, exts


def _cross_map_pair(seed, shard, docs, types, lids, exts):
    """two documents of different maps that have loops of the same path, with the same kind of structural defect in a loop of
    that common path: whatever is remembered per loop or node name in one map must not show in the other"""
    from .. import faults, mapmodel as mm
    from . import c02
    ch = docgen.RandomChooser(seed * 7919 + shard * 31 + 5)
    icvn = ch.choice(['00401', '00401', '00501'])
    pool = c02.mixed_pool(icvn)
    for attempt in range(6):
        ea = pool[ch.integer(0, len(pool) - 1)]
        near = [e for e in pool if e['file'] != ea['file'] for _ in range(min(12, c02._common_loops(ea['file'], e['file'])))]
        if not near:
            continue
        eb = near[ch.integer(0, len(near) - 1)]
        try:
            da = docgen.build_doc(ea, ch, p_seg=.4, p_loop=.5, max_rep=3, shape=(1, 1, 1), max_segs=200)
            db = docgen.build_doc(eb, ch, p_seg=.4, p_loop=.5, max_rep=3, shape=(1, 1, 1), max_segs=200)
        except docgen.GenFail:
            continue
        for kind in ['loop-body-removed', 'required-segment-removed', 'loop-over-max', 'segment-over-max']:
            def by_loop(doc):
                out = {}
                for c in faults.candidates(doc, kind):
                    sg = doc.segs[c[0]]
                    if sg.chain:
                        out.setdefault(mm.path(sg.chain[-1][0]), []).append(c)
                return out
            ca, cb = by_loop(da), by_loop(db)
            common = sorted(set(ca) & set(cb))
            if not common:
                continue
            lp = common[ch.integer(0, len(common) - 1)]
            ra = faults.inject(da, kind, ca[lp][ch.integer(0, len(ca[lp]) - 1)], ch.seed())
            rb = faults.inject(db, kind, cb[lp][ch.integer(0, len(cb[lp]) - 1)], ch.seed())
            if ra is None or rb is None:
                continue
            for dd, e in ((ra[0], ea), (rb[0], eb)):
                docs.append(dd.text())
                types.append(e['file'])
                lids.append(sorted({l.id for sg in dd.segs for l, n in sg.chain if l.children and l.children[0].kind == 'seg'}))
                exts.append([])
            return


def _ext_of(doc, loc):
    s = doc.segs[loc[0]]
    c = s.node.children[loc[1]]
    n = c if loc[2] is None else c.children[loc[2]]
    return n.ext


def run_histories(spec, seed, acc, n):
    from hypothesis import strategies as st
    docs, types, lids, exts = make_pool(seed, spec['shard'])

    @st.composite
    def case(draw):
        nops = draw(st.integers(4, 10))
        hist = []
        for _ in range(nops):
            di = draw(st.integers(0, len(docs) - 1))
            if hist and draw(st.integers(0, 3)) == 0:
                di = hist[draw(st.integers(0, len(hist) - 1))][0]      # come back to an earlier document
            kind = draw(st.sampled_from(['validate', 'validate', 'context', 'convert']))
            op = {'kind': kind, 'charset': draw(st.sampled_from(['E', 'E', 'B'])), 'exclude': draw(st.sampled_from([None, None, 'states'] + exts[di] + exts[di]))}
            if kind == 'validate':
                op['sinks'] = list(draw(st.sampled_from([(1, 0, 0), (1, 1, 1), (0, 1, 0), (1, 0, 1), (0, 0, 0)])))
            if kind == 'context':
                op['loop_id'] = draw(st.sampled_from([None] + lids[di])) if lids[di] else None
            hist.append([di, op, draw(st.booleans())])
        return {'docs': docs, 'doc_types': types, 'history': hist, 'ops': []}

    core.hyp_collect(case(), check_case, n, seed * 1000 + spec['shard'], acc, case_timeout=600)
    for s in acc.samples:
        if isinstance(s, dict) and 'docs' in s:
            s['docs'] = ['%d chars, %s' % (len(d), t) for d, t in zip(docs, types)]


_cache = {}
_orig_baseline = baseline


def baseline(text, ops, hashseed):     # memoised per process: a baseline is a pure function of (document, ops, hash seed)
    key = (hashlib.md5(text.encode('utf-8', 'replace')).hexdigest(), hashseed)
    store = _cache.setdefault(key, {})
    missing = [op for op in ops if op_key(op) not in store]
    if missing:
        store.update(_orig_baseline(text, missing, hashseed))
    return {op_key(op): store[op_key(op)] for op in ops}


def shards(tier, seed):
    return [{'shard': i, 'n': 40 if tier == 'thorough' else 7} for i in range(16)]


def run_shard(spec, seed, tier):
    acc = core.Acc()
    run_histories(spec, seed, acc, spec['n'])
    return acc


if __name__ == '__main__':
    worker_main()
