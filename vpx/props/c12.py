"""C12  Validation results do not depend on delimiters or line layout (metamorphic)."""
from .. import core, docgen, observe, x12ref
from . import genfaulty

PID = 'C12'
RULE = ('Generated valid and faulty documents of every transaction map (and the repository fixtures) are serialised twice: reference '
        '~ * : with LF, and a drawn delimiter triple (punctuation; control separators 0x1C-0x1F for terminator/element separator) '
        'absent from the data, with none / LF / CRLF after terminators. Oracle: equal verdict, equal set of error tuples (level, '
        'interchange/group/set, segment id, position, element, component, code, value) and equal acknowledgement body (AK*/IK*/CTX/'
        'TA1 lines). Non-trivial = triple differs from ~ * : in >=2 characters and the document has >=1 composite and >=1 error; '
        'distinct by digest of (text, triple, layout).')
ASSUMPTIONS = ['offending values of composite elements are compared after mapping the source component separator to ":"; their echo in AK404/IK404 is not compared (representation depends on the separator by nature)',
               'data never contains any character of either delimiter set']

PUNCT = list('|!\\+/#@$%&=?;,_{}[]')   # not < >: pyx12 names control characters as <BEL> in error values
CTRL = ['\x1c', '\x1d', '\x1e', '\x1f']


def ack_body(ack, sub_marker=None):
    if not ack:
        return None
    d, segs = x12ref.tokenize(ack)
    out = []
    for s in segs:
        if s.id in ('ISA', 'GS', 'ST', 'SE', 'GE', 'IEA'):
            continue
        els = [list(e) for e in s.elems]
        if s.id in ('AK4', 'IK4') and len(els) > 3:
            # composite-valued echoes are representation dependent (and left out when they contain ':')
            if len(els[3]) > 1 or (sub_marker and sub_marker in els[3][0]):
                del els[3:]
        out.append((s.id, els))
    return out


def norm_errors(errors, sub):
    out = []
    for e in errors:
        v = e['value'] or ''
        if sub != ':' and sub in v:
            v = v.replace(sub, ':')
        out.append((e['level'], e['isa'], e['gs'], e['st'], e['seg_id'], e['pos'], e['ele'], e['sub'], e['code'], v))
    return sorted(out, key=repr)


def check_case(case):
    out = core.Outcome()
    meta = case.get('meta', {})
    cs = case.get('charset') or 'E'
    a = observe.run_validator(case['text_ref'], ack=True, charset=cs)
    b = observe.run_validator(case['text_alt'], ack=True, charset=cs)
    dl = case['delims']
    ndiff = sum(1 for x, y in zip(dl[:3], '~*:') if x != y)
    out.classes = ['map:' + meta.get('file', '?'), 'layout:' + repr(case.get('eol')), 'faults:%d' % len(meta.get('faults', [])), 'charset:' + cs]
    if meta.get('aligned'):
        out.classes.append('terminator-on-buffer-edge')
    if meta.get('empty_segment'):
        out.classes.append('empty-segment')
    if 'junk-segment' in meta.get('faults', []):
        out.classes.append('malformed-segment')
    if any(c in dl[:2] for c in CTRL):
        out.classes.append('control-char-delimiter')
    out.key = [case['text_ref'], dl, case.get('eol')]
    if a.exc is not None or b.exc is not None:
        if (a.exc is None) != (b.exc is None) or type(a.exc) is not type(b.exc):
            out.fail('exception-differs', 'reference: %r; re-encoded: %r' % (a.exc, b.exc))
        out.classes.append('did-not-complete')
        return out
    has_comp = dl[2] in case['text_alt'][106:]
    out.nontrivial = ndiff >= 2 and has_comp and len(a.errors) >= 1
    if a.verdict != b.verdict:
        out.fail('verdict-differs', 'reference %r, re-encoded %r (delimiters %r, eol %r)' % (a.verdict, b.verdict, dl, case.get('eol')))
    # the alternative component separator is mapped to ':' on both sides (data contains neither)
    ea, eb = norm_errors(a.errors, dl[2]), norm_errors(b.errors, dl[2])
    if ea != eb:
        only_a = [x for x in ea if x not in eb][:3]
        only_b = [x for x in eb if x not in ea][:3]
        what = 'value' if [x[:9] for x in ea] == [x[:9] for x in eb] else 'errors'
        out.fail('%s-differ' % what, 'only with ~*: : %r; only with %r: %r' % (only_a, dl, only_b))
    try:
        ba, bb = ack_body(a.ack, None), ack_body(b.ack, dl[2])
        if ba != bb and not out.failures:
            i = 0
            while i < min(len(ba or []), len(bb or [])) and ba[i] == bb[i]:
                i += 1
            out.fail('ack-body-differs', 'line #%d: %r vs %r' % (i, (ba or [None])[i:i + 1], (bb or [None])[i:i + 1]))
    except Exception as e:
        out.fail('ack-unreadable', core.exc_detail(e))
    return out


def double_term(text, term, eol, j, k=1):
    """k more terminators (each followed by the layout's line break) after the j-th segment; the data holds no terminator"""
    parts = text.split(term)
    if j + 1 >= len(parts):
        j = len(parts) - 2
    if j < 0:
        return text
    for _ in range(k):
        parts.insert(j + 1, eol)
    return term.join(parts)


def draw_delims(ch, icvn):
    # the standard characters may also swap roles (e.g. ':' as element and '*' as component separator)
    pool = PUNCT + ['*', ':', '~', '^']
    term = ch.choice(pool + CTRL[:2] + ['\n'])
    ele = ch.choice([c for c in pool + CTRL[2:] if c != term])
    # the component separator is data of ISA16: it must belong to the character set of the interchange version
    sub = ch.choice([c for c in pool if c not in (term, ele) and not (c == '^' and icvn == '00401')])
    rep = ch.choice([c for c in pool if c not in (term, ele, sub)])
    return term, ele, sub, rep


def run_entry(entry, n, seed, acc, tier, rot=0):
    from hypothesis import strategies as st

    @st.composite
    def case(draw):
        ch = docgen.HypChooser(draw)
        dl = draw_delims(ch, entry['icvn'])
        # basic character set only for 00401 (under 00501 the reference repetition separator '^' is itself not a basic character)
        # Hypothesis' first example takes the first alternative everywhere: rotate the list per shard so that the first
        # validation of a process is not always made under charset E
        order = [['E', 'E', 'B'], ['B', 'E', 'E'], ['E', 'B', 'E']][rot % 3]
        charset = ch.choice(order) if entry['icvn'] == '00401' else 'E'
        if charset == 'B' and dl[2] not in '!"&\'()*+,-./:;?=':
            # under the basic character set the component separator (data of ISA16) must be a basic character
            dl = (dl[0], dl[1], ch.choice([c for c in '!&+,/;?=' if c not in (dl[0], dl[1], dl[3])]), dl[3])
        count_comp = False
        if charset == 'E' and ch.chance(.12):
            # a count that wrongly carries components, re-encoded with a component separator that makes its text look like a
            # number to a lenient reader ('1_0', '+1')
            c_ = [c for c in '_+' if c not in (dl[0], dl[1], dl[3])]
            if c_:
                dl = (dl[0], dl[1], ch.choice(c_), dl[3])
                count_comp = True
        if entry['icvn'] == '00401' and charset == 'E' and ch.chance(.08):
            # groups of different maps in one interchange
            res = genfaulty.build_mixed(ch, acc, avoid='~*:^' + ''.join(dl), flavor='punct', envelope=.2, malformed=.25)
            if res is not None and res[0].icvn != '00401':
                res = None
        else:
            res = genfaulty.build(entry, ch, acc, avoid='~*:^' + ''.join(dl), flavor='punct', envelope=.2, malformed=.25, big=.35)
        if res is None:
            return {'skip': 'genfail'}
        doc, exps = res
        if count_comp:
            tr_ = [x for x in doc.segs if x.id in ('GE', 'IEA') and x.vals and x.vals[0]]
            if tr_:
                tr_[ch.integer(0, len(tr_) - 1)].vals[0] = ['1', '0'] if dl[2] == '_' else ['', '1']
                exps.append({'kind': 'count-with-components', 'envelope': True})
        eol = ch.choice(['', '\n', '\r\n'])
        if dl[0] == '\n':
            eol = ''
        meta = genfaulty.meta_of(doc, exps)
        if eol and ch.chance(.7):
            # put a terminator (or the CR of CRLF) on a read-buffer edge of the re-encoded text
            hit = docgen.pad_to_boundary(doc, dl[0], dl[1], dl[2], eol, dl[3], delta=ch.choice([-1, -1, -2, 0]))
            if hit:
                meta['aligned'] = hit
        text_ref, text_alt = doc.text(), doc.text(term=dl[0], ele=dl[1], sub=dl[2], rep=dl[3], eol=eol)
        if ch.chance(.12):
            # an empty segment (two terminators in a row, the line break of the layout between them) after the same segment of both
            j = ch.integer(0, max(0, len(doc.segs) - 1))
            k = ch.choice([1, 1, 2])
            text_ref, text_alt = double_term(text_ref, '~', '\n', j, k), double_term(text_alt, dl[0], eol, j, k)
            meta['empty_segment'] = [j, k]
        return {'text_ref': text_ref, 'text_alt': text_alt,
                'delims': list(dl), 'eol': eol, 'charset': charset, 'meta': meta}

    def chk(c):
        if 'skip' in c:
            return core.Outcome(classes=['skipped:' + c['skip']])
        return check_case(c)

    core.hyp_collect(case(), chk, n, seed, acc, case_timeout=120)


def run_fixtures(acc, seed):
    from . import fixtures
    import random
    r = random.Random(seed)
    for name, text in fixtures.all_texts():
        try:
            d, segs = x12ref.tokenize(text)
        except Exception:
            continue
        data = set(text[106:]) - {d['term'], d['ele'], d['sub'], '\n', '\r'}
        for k in range(3):
            pool = [c for c in PUNCT if c not in data]
            if len(pool) < 4:
                break
            r.shuffle(pool)
            term, ele, sub, rep = pool[:4]
            if k == 2 and not any('\n' in (s.raw or '') for s in segs):
                term = '\n'
            eol = r.choice(['', '\n', '\r\n']) if term != '\n' else ''
            nd = {'term': term, 'ele': ele, 'sub': sub}
            parts = []
            for s in segs:
                if s.id == 'ISA':
                    els = [e[0] for e in s.elems]
                    els[15] = sub
                    if d['icvn'] == '00501':
                        els[10] = rep
                    parts.append('ISA' + ele + ele.join(els) + term + eol)
                else:
                    parts.append(s.id + ele + ele.join(sub.join(e) for e in s.elems) + term + eol)
            ref = ''.join((s.id + '*' + '*'.join((':'.join(e) if s.id != 'ISA' else e[0]) for e in s.elems) + '~\n') for s in segs)
            if d['icvn'] == '00501':
                # keep the reference ISA11/ISA16 canonical
                pass
            case = {'text_ref': text if (d['term'], d['ele'], d['sub']) == ('~', '*', ':') else ref, 'text_alt': ''.join(parts),
                    'delims': [term, ele, sub, rep], 'eol': eol, 'meta': {'file': 'fixture:' + name, 'faults': []}}
            acc.add(case, check_case(case))


def shards(tier, seed):
    s = [{'kind': 'gen', 'entry': e, 'i': i, 'n': 300 if tier == 'thorough' else 22} for i, e in enumerate(genfaulty.entries(exclude_ack=False))]
    s.append({'kind': 'fixtures'})
    return s


def run_shard(spec, seed, tier):
    acc = core.Acc()
    if spec['kind'] == 'fixtures':
        run_fixtures(acc, seed)
    else:
        run_entry(spec['entry'], spec['n'], seed * 1000 + spec['i'], acc, tier, rot=spec['i'] + seed)
    return acc
