"""C05  Verdict, reported errors and acknowledgement always agree.

Three artefacts computed by different code (boolean, recorded error tree, 997/999 text) are compared with each
other and with an independent count of the input's groups and sets.
"""
import collections
import re

from .. import core, docgen, observe, x12ref
from . import genfaulty

PID = 'C05'
RULE = ('Hypothesis-generated documents of every transaction map: valid, singly and multiply faulty (0..4 catalogue faults), 1..2 '
        'interchanges x 1..3 groups x 1..3 sets, 4010 -> 997 and 5010 -> 999. Relations: R1 verdict <=> own count over the recorded '
        'error tree is zero; R2 acknowledgement ISA05-08 and GS02/03 are the input\'s swapped; R3 AK1 sequence = input GS sequence '
        '(id, control number[, version]) and the AK2 sequence under each = its ST sequence; R4 AK5/IK5 = A <=> no error at or below '
        'that set; R5 AK901 = A <=> no error at or below that group, AK902 = declared GE01, AK903 = sets present, AK904 = sets '
        'with R4-A; R6 every segment/element error whose code is in the AK304/AK403 (IK304/IK403) list appears under its AK2 with '
        'segment id, position, element[:component] position, data element number, code and value. Non-trivial = >=2 sets and >=1 '
        'error, or >=2 groups; distinct by digest of the text.')
ASSUMPTIONS = ['counts of groups/sets come from the reference tokeniser applied to the input text', 'inputs are complete interchanges (validation completes)',
               'an offending value that contains an acknowledgement delimiter must still be itemised (position, code) but its echo is not compared']

AK3_CODES = {'1', '2', '3', '4', '5', '6', '7', '8'}
AK4_CODES = {'1', '2', '3', '4', '5', '6', '7', '8', '9', '10'}
IK3_CODES = AK3_CODES | {'I4', 'I6', 'I7', 'I8', 'I9'}
IK4_CODES = AK4_CODES | {'12', '13', 'I10', 'I11', 'I12', 'I13', 'I6', 'I9'}


def parse_input(text):
    d, segs = x12ref.tokenize(text)
    isas = []
    pos = 0
    for s in segs:
        v = [d['sub'].join(e) if s.id != 'ISA' else e[0] for e in s.elems]
        if s.id == 'ISA':
            isas.append({'isa': v, 'groups': []})
        elif s.id == 'GS' and isas:
            isas[-1]['groups'].append({'gs': v, 'sets': [], 'ge': None})
        elif s.id == 'ST' and isas and isas[-1]['groups']:
            isas[-1]['groups'][-1]['sets'].append({'st': v})
        elif s.id == 'GE' and isas and isas[-1]['groups']:
            isas[-1]['groups'][-1]['ge'] = v
    return d, isas


def parse_ack(ack):
    d, segs = x12ref.tokenize(ack)
    out = {'isa': None, 'gs': [], 'groups': [], 'delims': d, 'nseg': len(segs)}
    g = None
    st = None
    k3 = None
    for s in segs:
        v = [d['sub'].join(e) if s.id != 'ISA' else e[0] for e in s.elems]
        if s.id == 'ISA':
            out['isa'] = v
        elif s.id == 'GS':
            out['gs'].append(v)
        elif s.id == 'AK1':
            g = {'ak1': v, 'sets': [], 'ak9': None}
            out['groups'].append(g)
        elif s.id == 'AK2' and g is not None:
            st = {'ak2': v, 'k3': [], 'k5': None}
            g['sets'].append(st)
            k3 = None
        elif s.id in ('AK3', 'IK3') and st is not None:
            k3 = {'v': v, 'k4': []}
            st['k3'].append(k3)
        elif s.id in ('AK4', 'IK4') and k3 is not None:
            p = s.elems[0] if s.elems else ['']
            k3['k4'].append({'pos': p, 'v': v})
        elif s.id in ('AK5', 'IK5') and st is not None:
            st['k5'] = v
            st = None
            k3 = None
        elif s.id == 'AK9' and g is not None:
            g['ak9'] = v
            g = None
    return out


def check_case(case):
    out = _check_case(case)
    genfaulty.tag_structural(case, out)
    # which of the three totals is off on structurally broken input is not a different root cause
    out.failures = [(re.sub(r'^R5:group-totals:[a-z+]+\[', 'R5:group-totals[', b_), d_) for b_, d_ in out.failures]
    return out


def _check_case(case):
    out = core.Outcome()
    text = case['text']
    meta = case.get('meta', {})
    f = meta.get('file', '?')
    o = observe.run_validator(text, ack=True)
    out.classes = ['map:' + f, 'faults:%d' % len(meta.get('faults', [])), 'shape:%d/%d/%d' % (meta.get('nisa', 0), meta.get('ngroups', 0), meta.get('nsets', 0))]
    if meta.get('placement', 'free') != 'free':
        out.classes.append('fault-placement:' + meta['placement'])
    if meta.get('delims'):
        out.classes.append('non-default-source-delimiters')
    if meta.get('hostile'):
        out.classes.append('hostile-echo')
    if o.exc is not None:
        # totality is C07's business; here the case simply does not qualify ("inputs for which validation completes")
        out.classes.append('did-not-complete')
        return out
    nerr = len(o.errors)
    out.nontrivial = (meta.get('nsets', 0) >= 2 and nerr >= 1) or meta.get('ngroups', 0) >= 2
    out.key = text
    out.classes.append('errors:%s' % ('0' if nerr == 0 else '1' if nerr == 1 else '2-5' if nerr <= 5 else '6+'))
    # R1': every error the reader reports for a segment reaches the error tree (the verdict and the acknowledgement are made
    # from the tree: an error that is only logged leaves a faulty input accepted)
    try:
        rerrs = observe.reader_errors(text)
    except Exception:
        rerrs = []
    have = collections.Counter((' '.join((e['msg'] or '').split()), e['seg_id']) for e in o.errors)
    for (typ, cde, msg, sid) in rerrs:
        m_ = (' '.join((msg or '').split()), sid)
        if typ == 'seg' and cde in ('1', '8', 'SEG1') and have[m_] <= 0:
            where = 'envelope-segment' if sid in ('ISA', 'GS', 'ST', 'SE', 'GE', 'IEA') else 'body-segment'
            out.fail('R1:reader-error-lost:%s' % where, 'the reader reports %r (code %s) at a %s segment; the error tree has no such error (verdict %r)' % (m_[0], cde, sid, o.verdict))
            break
        have[m_] -= 1
    # R1
    if (o.verdict is True) != (nerr == 0) or o.verdict not in (True, False):
        out.fail('R1:verdict-%s-with-%s-errors' % (o.verdict, 'no' if nerr == 0 else 'some'),
                 'verdict %r, %d recorded errors: %s' % (o.verdict, nerr, [(e['level'], e['seg_id'], e['code']) for e in o.errors[:5]]))
    if not o.ack:
        out.fail('no-ack', 'acknowledgement sink empty')
        return out
    try:
        d, isas = parse_input(text)
        a = parse_ack(o.ack)
    except Exception as e:
        out.fail('ack-unreadable', core.exc_detail(e))
        return out
    is999 = meta.get('icvn') == '00501' or (a['groups'] and a['groups'][0]['sets'] and False)
    # an identifying value that contains one of the acknowledgement's own delimiters cannot be written as it is: those
    # characters are left out (C06 checks that they never get through)
    bad = '~*:^' if is999 else '~*:'

    def wr(v):
        return ''.join(c for c in (v or '') if c not in bad)
    # R2
    src_isa = isas[-1]['isa'] if isas else None
    if a['isa'] is None or not a['gs']:
        out.fail('R2:ack-envelope-missing', o.ack[:120])
        return out
    # (a header field wider than its fixed width cannot be copied whole: the acknowledgement's own header keeps the width)
    if src_isa and ([x.rstrip() for x in a['isa'][4:8]] != [wr(x)[:w].rstrip() for x, w in ((src_isa[6], 2), (src_isa[7], 15), (src_isa[4], 2), (src_isa[5], 15))]):
        out.fail('R2:isa-not-addressed-to-sender', 'ack ISA05-08 %r, input ISA05-08 %r' % (a['isa'][4:8], src_isa[4:8]))
    src_groups = [g for i in isas for g in i['groups']]
    if src_groups:
        g0 = src_groups[-1]['gs']
        if [x.rstrip() for x in a['gs'][0][1:3]] != [wr(g0[2]).rstrip(), wr(g0[1]).rstrip()]:
            out.fail('R2:gs-not-addressed-to-sender', 'ack GS02/03 %r, input GS02/03 %r' % (a['gs'][0][1:3], g0[1:3]))
    # R3
    want_ak1 = [[wr(g['gs'][0]), wr(g['gs'][5])] for g in src_groups]
    got_ak1 = [g['ak1'][:2] for g in a['groups']]
    if got_ak1 != want_ak1:
        out.fail('R3:ak1-sequence', 'AK1 %r, input groups %r' % (got_ak1, want_ak1))
        return out
    errs_by_set = {}
    errs_by_group = {}
    gidx = {}
    n = 0
    for ii, i in enumerate(isas):
        for gi, g in enumerate(i['groups']):
            gidx[(ii, gi)] = n
            n += 1
    for e in o.errors:
        if e['gs'] is not None:
            errs_by_group.setdefault(gidx.get((e['isa'], e['gs'])), []).append(e)
            if e['st'] is not None:
                errs_by_set.setdefault((gidx.get((e['isa'], e['gs'])), e['st']), []).append(e)
    for gi, (sg, ag) in enumerate(zip(src_groups, a['groups'])):
        if is999 and len(ag['ak1']) > 2 and ag['ak1'][2] != sg['gs'][7]:
            out.fail('R3:ak1-version', 'AK103 %r, GS08 %r' % (ag['ak1'][2], sg['gs'][7]))
        want = [[wr(x) for x in s['st'][:2]] for s in sg['sets']]
        got = [s['ak2'][:2] for s in ag['sets']]

        def _t(rows):
            # an empty control number at the end of AK2 is not written at all (trailing empty elements are trimmed)
            return [[x for x in r_] if not (len(r_) > 1 and r_[-1] == '') else list(r_[:-1]) for r_ in rows]
        if _t(got) != _t(want):
            out.fail('R3:ak2-sequence', 'group #%d: AK2 %r, input sets %r' % (gi, got, want))
            continue
        accepted = 0
        for si, (ss, as_) in enumerate(zip(sg['sets'], ag['sets'])):
            es = errs_by_set.get((gi, si), [])
            code = as_['k5'][0] if as_['k5'] else None
            # R4
            if (code == 'A') != (len(es) == 0):
                out.fail('R4:set-%s-with-%s-errors' % (code, 'no' if not es else 'some'),
                         'group #%d set #%d: AK5/IK5 %r, errors %s' % (gi, si, code, [(e['level'], e['seg_id'], e['pos'], e['code']) for e in es[:5]]))
            if not es:
                accepted += 1
            # R6
            k3codes = IK3_CODES if is999 else AK3_CODES
            k4codes = IK4_CODES if is999 else AK4_CODES
            have3 = set((k['v'][0], k['v'][1], k['v'][3] if len(k['v']) > 3 else None) for k in as_['k3'])
            have4 = []
            for k in as_['k3']:
                for x in k['k4']:
                    p = x['pos']
                    have4.append((k['v'][0], k['v'][1], p[0], p[1] if len(p) > 1 and p[1] != '' else None,
                                  x['v'][2] if len(x['v']) > 2 else None, x['v'][3] if len(x['v']) > 3 else None))
            n4_ = {}
            for e in es:
                if e['level'] == 'ele' and e['code'] in k4codes and not is999:
                    # an AK3 of the 997 takes 99 AK4 at most: what comes after the 99th of a segment cannot be itemised
                    n4_[e['pos']] = n4_.get(e['pos'], 0) + 1
                    if n4_[e['pos']] > 99:
                        continue
                if e['level'] == 'seg' and e['code'] in k3codes:
                    if (e['seg_id'], str(e['pos']), e['code']) not in have3:
                        out.fail('R6:seg-error-not-itemised:%s' % e['code'], 'set #%d: %s pos %s code %s not among %s' % (si, e['seg_id'], e['pos'], e['code'], sorted(have3)[:6]))
                elif e['level'] == 'ele' and e['code'] in k4codes:
                    val = e['value'] or None
                    cand = [h for h in have4 if h[0] == e['seg_id'] and h[1] == str(e['pos']) and h[2] == str(e['ele'])
                            and h[3] == (str(e['sub']) if e['sub'] else None) and h[4] == e['code']]
                    if not cand:
                        out.fail('R6:ele-error-not-itemised:%s' % e['code'], 'set #%d: %s pos %s ele %s:%s code %s not among %s'
                                 % (si, e['seg_id'], e['pos'], e['ele'], e['sub'], e['code'], have4[:6]))
                    elif val is None and len(cand) == 1 and cand[0][5] not in (None, ''):
                        out.fail('R6:value-echoed-for-error-without-value', 'set #%d: %s pos %s ele %s code %s carries no value, acknowledgement echoes %r'
                                 % (si, e['seg_id'], e['pos'], e['ele'], e['code'], cand[0][5]))
                    elif val is not None and not [h for h in cand if h[5] == val] and not _has_delim(val):
                        out.fail('R6:offending-value', 'set #%d: %s pos %s ele %s code %s value %r, acknowledgement has %r'
                                 % (si, e['seg_id'], e['pos'], e['ele'], e['code'], val, [h[5] for h in cand]))
        # R5
        ak9 = ag['ak9']
        ge = es_ = errs_by_group.get(gi, [])
        if ak9 is None:
            out.fail('R5:ak9-missing', 'group #%d' % gi)
            continue
        if (ak9[0] == 'A') != (len(es_) == 0):
            out.fail('R5:group-%s-with-%s-errors' % (ak9[0], 'no' if not es_ else 'some'),
                     'group #%d: AK9 %r, errors %s' % (gi, ak9[:4], [(e['level'], e['seg_id'], e['pos'], e['code']) for e in es_[:5]]))
        declared = sg['ge'][0] if sg['ge'] else None
        # AK902 is the declared number (a count spelled 007 is the number 7)
        want9 = [str(int(declared)) if _isint(declared) else declared, str(len(sg['sets'])), str(accepted)]
        if declared is not None and ak9[1:4] != want9 and _isint(declared):
            which = [n_ for n_, (x, y) in zip(('declared', 'received', 'accepted'), zip(ak9[1:4], want9)) if x != y]
            out.fail('R5:group-totals:%s' % '+'.join(which), 'group #%d: AK902-04 %r, independent count %r' % (gi, ak9[1:4], want9))
    return out


def _isint(s):
    # an X12 count: digits (int() alone would also take '+1', '1_0', ' 1')
    return isinstance(s, str) and re.fullmatch(r'[0-9]{1,18}', s) is not None


def _has_delim(v):
    return any(c in v for c in '~*:^\n\r')


def run_entry(entry, n, seed, acc, tier, checker=None, **gkw):
    from hypothesis import strategies as st
    checker = checker or check_case

    @st.composite
    def case(draw):
        ch = docgen.HypChooser(draw)
        kw = dict(gkw)
        delims = None
        if ch.chance(.25):
            # source with other delimiters whose offending values carry the acknowledgement's own ~ * :
            delims = ch.choice([('|', '!', '>', '`'), ('\n', '|', '\\', '`'), ('\x1c', '\x1d', '\x1e', '\x1f')])
            kw.update(avoid=''.join(delims), hostile_values=['A~B', 'A*B', 'A:B', 'X*Y*Z', 'P:Q'], flavor='punct',
                      kinds=['too-long', 'not-in-code-list', 'wrong-char-class', 'extra-element', 'too-short', 'bad-date', 'required-removed'])
        if not delims and ch.chance(.1):
            # groups of different maps (acknowledgement groups among them) in one interchange
            res = genfaulty.build_mixed(ch, acc, max_faults=2, envelope=kw.get('envelope', 0.0))
        else:
            res = genfaulty.build(entry, ch, acc, **kw)
        if res is None:
            return {'skip': 'genfail'}
        doc, exps = res
        meta = genfaulty.meta_of(doc, exps)
        if delims:
            meta['delims'] = list(delims)
            return {'text': doc.text(term=delims[0], ele=delims[1], sub=delims[2], rep=delims[3], eol='' if delims[0] == '\n' else ch.choice(['\n', '\n', '', '\r\n'])), 'meta': meta}
        return {'text': doc.text(), 'meta': meta}

    def chk(c):
        if 'skip' in c:
            return core.Outcome(classes=['skipped:' + c['skip']])
        return checker(c)

    core.hyp_collect(case(), chk, n, seed, acc, case_timeout=120)


def shards(tier, seed):
    return [{'entry': e, 'i': i, 'n': 300 if tier == 'thorough' else 60} for i, e in enumerate(genfaulty.entries())]


def run_shard(spec, seed, tier):
    acc = core.Acc()
    run_entry(spec['entry'], spec['n'], seed * 1000 + spec['i'], acc, tier, envelope=.35, by_set=.2, twin_sets=.25, cluster=.15)
    return acc
