"""What we look at: verdict/exception, recorded error tree (flattened), acknowledgement, HTML, XML."""
import io
import logging

_installed = {}


def quiet():
    lg = logging.getLogger('pyx12')
    if not _installed.get('quiet'):
        lg.addHandler(logging.NullHandler())
        lg.propagate = False
        lg.setLevel(logging.CRITICAL + 10)
        _installed['quiet'] = True


def recorder():
    """Substitute a recording subclass for pyx12.error_handler.err_handler (looked up at call time by x12n_document)."""
    import pyx12.error_handler as eh
    if 'rec' not in _installed:
        base = eh.err_handler

        class Rec(base):
            last = None

            def __init__(self):
                base.__init__(self)
                Rec.last = self

        _installed['rec'] = Rec
        _installed['base'] = base
    eh.err_handler = _installed['rec']
    return _installed['rec']


class Obs(object):
    __slots__ = ('verdict', 'exc', 'errors', 'ack', 'html', 'xml', 'tree', 'sets', 'groups')

    def __init__(self):
        self.verdict = None
        self.exc = None
        self.errors = []
        self.ack = None
        self.html = None
        self.xml = None
        self.tree = None


def flatten(errh):
    """-> list of dict(level, isa, gs, st, seg_id, pos, line, ele, sub, code, value, msg)"""
    out = []
    if errh is None:
        return out
    for ii, isa in enumerate(errh.children):
        for (c, m) in isa.errors:
            out.append(dict(level='isa', isa=ii, gs=None, st=None, seg_id='ISA', pos=None, line=None, ele=None, sub=None, code=c, value=None, msg=m))
        for el in getattr(isa, 'elements', []):
            for (c, m, v) in el.errors:
                out.append(dict(level='isa-ele', isa=ii, gs=None, st=None, seg_id='ISA', pos=None, line=None, ele=el.ele_pos, sub=el.subele_pos, code=c, value=v, msg=m))
        for gi, gs in enumerate(isa.children):
            for (c, m) in gs.errors:
                out.append(dict(level='gs', isa=ii, gs=gi, st=None, seg_id='GS', pos=None, line=None, ele=None, sub=None, code=c, value=None, msg=m))
            for el in getattr(gs, 'elements', []):
                for (c, m, v) in el.errors:
                    out.append(dict(level='gs-ele', isa=ii, gs=gi, st=None, seg_id='GS', pos=None, line=None, ele=el.ele_pos, sub=el.subele_pos, code=c, value=v, msg=m))
            for si, st in enumerate(gs.children):
                for (c, m) in st.errors:
                    out.append(dict(level='st', isa=ii, gs=gi, st=si, seg_id='ST', pos=None, line=None, ele=None, sub=None, code=c, value=None, msg=m))
                for el in getattr(st, 'elements', []):
                    for (c, m, v) in el.errors:
                        out.append(dict(level='st-ele', isa=ii, gs=gi, st=si, seg_id='ST', pos=None, line=None, ele=el.ele_pos, sub=el.subele_pos, code=c, value=v, msg=m))
                for seg in st.children:
                    for (c, m, v) in seg.errors:
                        out.append(dict(level='seg', isa=ii, gs=gi, st=si, seg_id=seg.seg_id, pos=seg.seg_count, line=seg.cur_line, ele=None, sub=None, code=c, value=v, msg=m))
                    for el in seg.elements:
                        for (c, m, v) in el.errors:
                            out.append(dict(level='ele', isa=ii, gs=gi, st=si, seg_id=seg.seg_id, pos=seg.seg_count, line=seg.cur_line, ele=el.ele_pos, sub=el.subele_pos, code=c, value=v, msg=m))
    return out


def run_validator(text, ack=True, html=False, xml=False, charset=None, source=None, param=None, exclude=None):
    import pyx12.params
    import pyx12.x12n_document
    quiet()
    Rec = recorder()
    Rec.last = None
    o = Obs()
    if param is None:
        param = pyx12.params.params()
        if charset:
            param.set('charset', charset)
        if exclude:
            param.set('exclude_external_codes', exclude)
    fd_ack = io.StringIO() if ack else None
    fd_html = io.StringIO() if html else None
    fd_xml = io.StringIO() if xml else None
    src = source if source is not None else io.StringIO(text)
    try:
        o.verdict = pyx12.x12n_document.x12n_document(param, src, fd_ack, fd_html, fd_xml, None)
    except Exception as e:
        o.exc = e
    o.tree = Rec.last
    try:
        o.errors = flatten(Rec.last)
    except Exception:
        o.errors = []
    o.ack = fd_ack.getvalue() if fd_ack is not None else None
    o.html = fd_html.getvalue() if fd_html is not None else None
    o.xml = fd_xml.getvalue() if fd_xml is not None else None
    return o


def reader_errors(text):
    """what the bare X12Reader reports for this text: [(type, code, message, segment id)] in order (independent of the
    validator's error tree, which is fed from the same list)"""
    import pyx12.x12file
    quiet()
    out = []
    rd = pyx12.x12file.X12Reader(io.StringIO(text))
    for seg in rd:
        for e in rd.pop_errors():
            out.append((e[0], e[1], e[2], seg.get_seg_id()))
    rd.cleanup()
    for e in rd.pop_errors():
        out.append((e[0], e[1], e[2], None))
    return out


def err_tuples(errors, with_msg=False):
    # canonical order only: any total order will do (fields may be None in one tuple and a number in another)
    return sorted(((e['level'], e['isa'], e['gs'], e['st'], e['seg_id'], e['pos'], e['ele'], e['sub'], e['code'], e['value'] or '') for e in errors),
                  key=lambda t: tuple((x is None, str(x)) for x in t))
