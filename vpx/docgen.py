"""Conformant-document generator: walks a map (as read by vpx.mapmodel) in position order and constructs a
member of the language the map defines, together with its instance tree (which node every segment was meant to be,
which loop instances enclose it).

All structural decisions go through a Chooser (Hypothesis draws or a seeded PRNG); the filler text of one segment
comes from a random.Random seeded by one chosen integer.
"""
import random

from . import mapmodel as mm

ALNUM = 'ABCDEFGHJKLMNPQRSTUVWXYZ0123456789'
BASIC_PUNCT = '!"&\'()+,-./;?= '
EXT_PUNCT = '%@[]_{}\\|<>#$'
FMTS = ('D8', 'RD8', 'D6', 'DT', 'TM')


class GenFail(Exception):
    pass


class RandomChooser(object):
    def __init__(self, seed):
        self.r = random.Random(seed)
        self.n = 0

    def chance(self, p):
        self.n += 1
        return self.r.random() < p

    def integer(self, lo, hi):
        self.n += 1
        return self.r.randint(lo, hi)

    def choice(self, seq):
        self.n += 1
        return seq[self.r.randrange(len(seq))]

    def seed(self):
        self.n += 1
        return self.r.getrandbits(32)


class HypChooser(object):
    """Chooser backed by Hypothesis draws, falling back to a PRNG seeded by a draw once the draw budget is used."""

    def __init__(self, draw, budget=2000):
        from hypothesis import strategies as st
        self.st = st
        self.draw = draw
        self.n = 0
        self.budget = budget
        self.fallback = None
        self._ints = {}

    def _int(self, lo, hi):
        s = self._ints.get((lo, hi))
        if s is None:
            s = self._ints[(lo, hi)] = self.st.integers(lo, hi)
        return self.draw(s)

    def _fb(self):
        if self.fallback is None:
            self.fallback = RandomChooser(self._int(0, 2 ** 32 - 1))
        return self.fallback

    def chance(self, p):
        self.n += 1
        if self.n > self.budget:
            return self._fb().chance(p)
        return self._int(0, 999) < int(p * 1000)

    def integer(self, lo, hi):
        self.n += 1
        if self.n > self.budget:
            return self._fb().integer(lo, hi)
        return self._int(lo, hi)

    def choice(self, seq):
        self.n += 1
        if self.n > self.budget:
            return self._fb().choice(seq)
        return seq[self._int(0, len(seq) - 1)]

    def seed(self):
        self.n += 1
        if self.n > self.budget:
            return self._fb().seed()
        return self._int(0, 2 ** 32 - 1)


# ------------------------------------------------------------------ values

def _fits(code, e, charset_ok):
    if code is None or code == '':
        return False
    if e.minl is not None and not (e.minl <= _vlen(code, e.dtype) <= e.maxl):
        return False
    if code != code.rstrip(' ') or code != code.lstrip(' ') and False:
        return False
    if not charset_ok(code):
        return False
    return True


def _vlen(v, t):
    if t and (t == 'R' or t[0] == 'N'):
        return len(v.replace('-', '').replace('.', ''))
    return len(v)


def date8(r):
    return '%04d%02d%02d' % (r.choice([1999, 2000, 2004, 2010, 2023]), r.randint(1, 12), r.randint(1, 28))


def fmt_value(fmt, r):
    if fmt == 'D8':
        return date8(r)
    if fmt == 'RD8':
        return '20040101-200412%02d' % r.randint(1, 28)
    if fmt == 'D6':
        return date8(r)[2:]
    if fmt == 'DT':
        return date8(r) + '%02d%02d' % (r.randint(0, 23), r.randint(0, 59))
    if fmt == 'TM':
        return '%02d%02d' % (r.randint(0, 23), r.randint(0, 59))
    raise GenFail('format ' + fmt)


MARKUP_SEQS = [']]>', '<!--', '-->', '<![CDATA[', '&amp;', '&lt;', '&#60;', '&#x3C;', '<?', '?>', '</', '/>', '<b>', '">', "'>", '&;', '&#', ']]', '--']


class Values(object):
    def __init__(self, avoid, flavor='plain', icvn='00401'):
        self.avoid = set(avoid)
        self.flavor = flavor
        self.keep_empty_tail = 0.0      # probability of leaving trailing empty components in a composite ("HC:X::")
        base = [c for c in ALNUM if c not in self.avoid]
        punct = [c for c in BASIC_PUNCT if c not in self.avoid]
        ext = [c for c in EXT_PUNCT if c not in self.avoid]
        self.base = base
        if flavor == 'markup':
            self.alpha = base + punct + ext + [c for c in '&<>\'"' if c not in self.avoid] * 3
        elif flavor == 'punct':
            self.alpha = base + punct + ext
        else:
            self.alpha = base
        self.allowed = set(ALNUM + 'IO' + BASIC_PUNCT + EXT_PUNCT + 'abcdefghijklmnopqrstuvwxyz' + ('^`' if icvn == '00501' else '')) - self.avoid

    def charset_ok(self, s):
        return all(c in self.allowed for c in s)

    def text(self, r, lo, hi):
        n = r.randint(lo, min(hi, max(lo, lo + 7)))
        if hi <= 80 and r.random() < .08:
            n = hi                      # the longest value the definition admits
        if self.flavor == 'markup' and ' ' not in self.avoid and r.random() < .08:
            return ' ' * n          # an all-blank value satisfies an AN definition
        s = ''.join(r.choice(self.alpha) for _ in range(n))
        if self.flavor == 'markup' and r.random() < .12:
            # character sequences that mean something to an XML or HTML parser, not just single characters
            seqs = [q for q in MARKUP_SEQS if len(q) <= n and not (set(q) & self.avoid)]
            if seqs:
                q = r.choice(seqs)
                k = r.randint(0, n - len(q))
                s = s[:k] + q + s[k + len(q):]
        if s.endswith(' '):
            s = s[:-1] + r.choice(self.base)
        if s.startswith(' ') and self.flavor != 'markup':
            s = r.choice(self.base) + s[1:]
        if s.strip() == '':
            s = r.choice(self.base) * n
        return s

    def simple(self, e, r, fmt=None):
        if e.dtype is None:
            raise GenFail('undefined data element %s at %s' % (e.de, e.id))
        if e.codes:
            c = [x for x in e.codes if _fits(x, e, self.charset_ok) and x == x.rstrip(' ')]
            if not c:
                raise GenFail('no code of %s fits its own definition' % e.id)
            return r.choice(c)
        if e.ext:
            pool = mm.codes().get(e.ext)
            if pool is None:
                raise GenFail('undefined code set %s' % e.ext)
            c = [x for x in pool[:400] if _fits(x, e, self.charset_ok) and x == x.strip(' ')]
            if not c:
                raise GenFail('no member of %s fits %s' % (e.ext, e.id))
            return r.choice(c)
        if fmt:
            return fmt_value(fmt, r)
        if e.regex:
            return '%09d' % r.randint(0, 999999999)
        t, lo, hi = e.dtype, e.minl, e.maxl
        if t in ('AN', 'ID'):
            if t == 'ID':
                n = r.randint(lo, min(hi, max(lo, lo + 4)))
                return ''.join(r.choice(self.base) for _ in range(n))
            return self.text(r, lo, hi)
        n = r.randint(lo, min(hi, max(lo, lo + 5)))
        if hi <= 30 and r.random() < .12:
            n = hi                      # the longest value the definition admits (sign and point do not count)
        if t[0] == 'N':
            s = str(r.randint(1, 9)) + ''.join(r.choice('0123456789') for _ in range(n - 1))
            if r.random() < .15 and '-' not in self.avoid:
                s = '-' + s
            return s
        if t == 'R':
            s = str(r.randint(1, 9)) + ''.join(r.choice('0123456789') for _ in range(n - 1))
            if r.random() < .4 and '.' not in self.avoid:
                # decimal point anywhere, including the leading-zero-suppressed form ".75"
                k = r.randint(0, n - 1)
                s = s[:k] + '.' + s[k:]
            if r.random() < .15 and '-' not in self.avoid:
                s = '-' + s
            return s
        if t == 'DT':
            if hi >= 8 and lo <= 8:
                return date8(r)
            if lo <= 6 <= hi:
                return date8(r)[2:]
            raise GenFail('DT length %d..%d' % (lo, hi))
        if t == 'TM':
            ls = [x for x in (4, 6, 7, 8) if lo <= x <= hi]
            if not ls:
                raise GenFail('TM length %d..%d' % (lo, hi))
            k = r.choice(ls)
            return ('%02d%02d%02d%02d' % (r.randint(0, 23), r.randint(0, 59), r.randint(0, 59), r.randint(0, 99)))[:k]
        if t == 'B':
            return 'X' * n
        raise GenFail('type %s %s' % (t, e.id))


# ------------------------------------------------------------------ syntax notes

def parse_syn(s):
    return s[0], [int(s[i:i + 2]) for i in range(1, len(s) - 1, 2)]


def syn_ok(kind, idx, present):
    c = sum(1 for i in idx if i in present)
    if kind == 'P':
        return c in (0, len(idx))
    if kind == 'R':
        return c > 0
    if kind == 'E':
        return c <= 1
    if kind == 'C':
        return idx[0] not in present or c == len(idx)
    if kind == 'L':
        return idx[0] not in present or c > 1
    return True


def choose_present(seg, r, p_opt, force=()):
    req = {c.seq for c in seg.children if c.usage == 'R'} | set(force)
    opt = [c.seq for c in seg.children if c.usage == 'S']
    syn = []
    for s in seg.syntax:
        try:
            k, i = parse_syn(s)
            if k in 'PRECL' and all(1 <= x <= len(seg.children) for x in i):
                syn.append((k, i))
        except Exception:
            pass
    for attempt in range(200):
        present = set(req) | {s for s in opt if r.random() < p_opt}
        for _ in range(12):
            bad = [(k, i) for k, i in syn if not syn_ok(k, i, present)]
            if not bad:
                return present
            k, i = bad[0]
            usable = [x for x in i if x in opt or x in req]
            if k == 'P':
                if all(x in usable for x in i) and r.random() < .5:
                    present |= set(i)
                else:
                    present -= {x for x in i if x in opt}
            elif k == 'R':
                u = [x for x in i if x in opt]
                if u:
                    present.add(r.choice(u))
            elif k == 'E':
                keep = r.choice([x for x in i if x in present])
                present -= {x for x in i if x != keep and x in opt}
            elif k == 'C':
                if all(x in usable for x in i) and r.random() < .5:
                    present |= set(i)
                elif i[0] in opt:
                    present.discard(i[0])
                else:
                    present |= {x for x in i if x in opt}
            elif k == 'L':
                u = [x for x in i[1:] if x in opt]
                if u and r.random() < .5:
                    present.add(r.choice(u))
                elif i[0] in opt:
                    present.discard(i[0])
                elif u:
                    present.add(r.choice(u))
    return None


def gen_segment(seg, r, values, p_opt=.3):
    present = choose_present(seg, r, p_opt)
    if present is None:
        raise GenFail('cannot satisfy syntax notes of %s %s' % (mm.path(seg), seg.syntax))
    vals = []
    fmts = []
    for c in seg.children:
        if c.seq not in present:
            vals.append([''])
            continue
        if c.kind == 'comp':
            sub = []
            cfmt = None
            for s in c.children:
                if s.usage == 'R' or (s.usage == 'S' and r.random() < p_opt):
                    if s.de == '1250':
                        # a format qualifier inside the composite governs the date/time period component behind it
                        known = [x for x in s.codes if x in FMTS]
                        v = r.choice(known) if known else values.simple(s, r)
                        cfmt = v if v in FMTS else None
                        sub.append(v)
                    elif s.de == '1251' and cfmt:
                        sub.append(values.simple(s, r, cfmt))
                    else:
                        sub.append(values.simple(s, r))
                else:
                    sub.append('')
            if all(x == '' for x in sub):
                k = [i for i, s in enumerate(c.children) if s.usage != 'N']
                if not k:
                    raise GenFail('composite %s has no usable component' % c.id)
                sub[k[0]] = values.simple(c.children[k[0]], r)
            keep = getattr(values, 'keep_empty_tail', 0.0)
            if not (keep and r.random() < keep):
                while len(sub) > 1 and sub[-1] == '':
                    sub.pop()
            vals.append(sub)
        else:
            fmt = None
            if c.de == '1250':
                known = [x for x in c.codes if x in FMTS]
                v = r.choice(known) if known else values.simple(c, r)
                fmts = [v] if v in FMTS else []
                vals.append([v])
                continue
            if c.de == '1251':
                if fmts:
                    fmt = fmts[0]
                else:
                    q = [x for s in seg.children if s.kind == 'ele' and s.de == '1250' for x in s.codes if x in FMTS]
                    if q:
                        fmt = r.choice(q)
            vals.append([values.simple(c, r, fmt)])
    while vals and all(x == '' for x in vals[-1]):
        vals.pop()
    if not vals:
        return gen_segment(seg, r, values, min(1.0, p_opt + .35))
    return vals


# ------------------------------------------------------------------ document

class GSeg(object):
    __slots__ = ('node', 'vals', 'chain', 'tags')

    def __init__(self, node, vals, chain):
        self.node = node
        self.vals = vals
        self.chain = chain      # [(loop node, instance number)] outermost first
        self.tags = set()

    @property
    def id(self):
        return self.node.id

    def getval(self, ref):
        i = int(ref[:2]) - 1
        k = int(ref[3:]) - 1 if '-' in ref else None
        if i >= len(self.vals):
            return None
        if k is None:
            return ':'.join(self.vals[i]).rstrip(':') if self.id != 'ISA' else self.vals[i][0]
        return self.vals[i][k] if k < len(self.vals[i]) else None


class Doc(object):
    def __init__(self, entry, root):
        self.entry = entry
        self.root = root
        self.segs = []
        self.icvn = entry['icvn']
        self.stats = {}

    def text(self, term='~', ele='*', sub=':', eol='\n', rep=None):
        out = []
        for s in self.segs:
            out.append(fmt_seg(s, term, ele, sub, self.icvn, rep) + eol)
        return ''.join(out)

    def intended_paths(self):
        return [mm.path(s.node) for s in self.segs]


def fmt_seg(s, term='~', ele='*', sub=':', icvn='00401', rep=None):
    raw = getattr(s, 'raw_pattern', None)
    if raw is not None:
        # a malformed segment given as a pattern over the delimiters: E = element separator, S = component separator
        return raw.replace('E', ele).replace('S', sub) + term
    if s.id == 'ISA':
        els = [x[0] for x in s.vals]
        els[15] = sub
        # ISA11 is a separator field from 00501 on: by this header's own version (a file may hold both)
        if (els[11] if len(els) > 11 and els[11] in ('00401', '00501') else icvn) == '00501':
            els[10] = rep or '^'
        return 'ISA' + ele + ele.join(els) + term
    els = [sub.join(x) for x in s.vals]
    while els and els[-1] == '':
        els.pop()
    # spelling defects the reader itself reports: blanks in front of the identifier, separators after the last element
    lead = ' ' if 'lead-blank' in s.tags else ''
    trail = ele if 'trail-sep' in s.tags else ''
    return lead + s.id + ele + ele.join(els) + trail + term


def pad_to_boundary(doc, term='~', ele='*', sub=':', eol='\n', rep=None, delta=-1, bufsize=8192, header=106, safe=False):
    """Lengthen free-text (AN, no code list) values so that a segment terminator lands on offset
    header + bufsize*k + delta (a read-buffer edge of the reader).  Returns the boundary hit or None.
    safe: keep the document conformant - no date/time-period elements (their text is a date in the format their qualifier names)
    and no HL segments (HL01/HL02 are the hierarchy's bookkeeping)."""
    pieces = [fmt_seg(s, term, ele, sub, doc.icvn, rep) + eol for s in doc.segs]
    total = sum(len(x) for x in pieces)
    ends = []
    pos = 0
    for x in pieces:
        pos += len(x)
        ends.append(pos - len(eol) - 1)       # offset of the terminator character
    k = 1
    while header + bufsize * k + delta < total + 200:
        target = header + bufsize * k + delta
        # terminators before the target, nearest first
        cands = [(target - o, i) for i, o in enumerate(ends) if 0 < target - o <= 400 and i > 3]
        for need, i in sorted(cands):
            # paddable values in body segments up to and including segment i
            slots = []
            for j in range(i, 2, -1):
                sg = doc.segs[j]
                if sg.id in ('ISA', 'GS', 'ST', 'SE', 'GE', 'IEA') or getattr(sg, 'raw_pattern', None) is not None:
                    continue
                if safe and sg.id == 'HL':
                    continue
                for ei, c in enumerate(sg.node.children):
                    if safe and c.kind == 'ele' and c.de == '1251':
                        continue
                    if c.kind == 'ele' and c.dtype == 'AN' and not c.codes and not c.ext and not c.regex and ei > 0 \
                            and ei < len(sg.vals) and sg.vals[ei][0] != '' and c.usage != 'N':
                        room = c.maxl - len(sg.vals[ei][0])
                        if room > 0:
                            slots.append((j, ei, room))
                if sum(x[2] for x in slots) >= need:
                    break
            if sum(x[2] for x in slots) < need:
                continue
            left = need
            for j, ei, room in slots:
                take = min(room, left)
                doc.segs[j].vals[ei][0] += 'Z' * take
                left -= take
                if left == 0:
                    break
            return target
        k += 1
    return None


class Gen(object):
    def __init__(self, entry, ch, values=None, p_seg=.25, p_loop=.25, max_rep=2, max_segs=400, target=None, shape=(1, 1, 1),
                 at_limit=True, shuffle=True):
        self.entry = entry
        self.shuffle = shuffle
        self.root = mm.load_map(entry['file'])
        self.ch = ch
        self.values = values or Values('~*:^', 'plain', entry['icvn'])
        self.p_seg = p_seg
        self.p_loop = p_loop
        self.max_rep = max_rep
        self.max_segs = max_segs
        self.shape = shape
        self.at_limit = at_limit
        self.doc = Doc(entry, self.root)
        self.cur = None
        self.amb = 0
        self.inst = 0
        self.force = set()
        self.target = target
        if target is not None:
            n = target
            while n is not None:
                self.force.add(id(n))
                n = n.parent
        self.in_body = 0

    # -- emission with the unambiguity constraint
    def emit(self, seg, chain):
        for attempt in range(25):
            r = random.Random(self.ch.seed())
            vals = gen_segment(seg, r, self.values, .3 if attempt < 20 else .6)
            gs = GSeg(seg, vals, list(chain))
            if self._fix_control_values(gs):
                pass
            if self.cur is None:
                cands = [seg]
            else:
                cands = []
                for grp in mm.scan_groups(self.cur):
                    m = [n for n in grp if mm.could_match(n, seg.id, gs.getval)]
                    if m:
                        cands = m
                        break
            if len(cands) == 1 and cands[0] is seg:
                self.doc.segs.append(gs)
                self.cur = seg
                return True
        self.amb += 1
        return False

    def _fix_control_values(self, gs):
        """values that select the map (must be in place before matching is judged)"""
        e = self.entry
        if gs.id == 'BHT' and e.get('tspc') and len(gs.vals) > 1:
            gs.vals[1] = [e['tspc']]
            return True
        return False

    def _ordered_children(self, loop, start):
        """children in position order; siblings sharing one position come in a drawn order (the map fixes none)"""
        kids = list(loop.children[start:])
        out = []
        i = 0
        while i < len(kids):
            j = i
            while j < len(kids) and kids[j].pos == kids[i].pos:
                j += 1
            grp = kids[i:j]
            # free order: segments among themselves, situational loops among themselves (a required loop is expected
            # before its same-position siblings, and loops come before segments)
            kinds = set(g.kind for g in grp)
            free = len(kinds) == 1 and (kinds == {'seg'} or all(g.usage == 'S' and g.type != 'wrapper' for g in grp)) \
                and loop.kind != 'root' and loop.id not in ('ISA_LOOP', 'GS_LOOP', 'ST_LOOP')
            if len(grp) > 1 and free and self.shuffle and self.ch.chance(.5):
                grp = list(grp)
                for k in range(len(grp) - 1, 0, -1):
                    r = self.ch.integer(0, k)
                    grp[k], grp[r] = grp[r], grp[k]
            out += grp
            i = j
        return out

    def children(self, loop, chain, start=0):
        for c in self._ordered_children(loop, start):
            if c.usage == 'N':
                continue
            forced = id(c) in self.force
            full = len(self.doc.segs) >= self.max_segs
            if c.kind == 'seg':
                if c.usage == 'R' or forced:
                    n = 1
                else:
                    n = 1 if (not full and self.ch.chance(self.p_seg)) else 0
                lim = mm.limit(c.max_use)
                if n and not full and lim > 1 and self.ch.chance(.3):
                    if self.at_limit and lim <= 5 and self.ch.chance(.4):
                        n = lim
                        tag = 'seg-at-limit'
                    else:
                        n = min(lim, self.ch.integer(1, self.max_rep))
                        tag = None
                else:
                    tag = None
                for k in range(n):
                    ok = self.emit(c, chain)
                    if not ok:
                        if (c.usage == 'R' or forced) and k == 0:
                            raise GenFail('required segment cannot be emitted unambiguously: %s' % mm.path(c))
                        break
                    if tag and k == n - 1:
                        self.doc.segs[-1].tags.add(tag)
            else:
                wrapper = c.type == 'wrapper'
                if c.usage == 'R' or wrapper or forced:
                    n = 1
                else:
                    n = 1 if (not full and self.ch.chance(self.p_loop)) else 0
                lim = mm.limit(c.repeat)
                tag = None
                if c.id == 'ISA_LOOP':
                    n = self.shape[0]
                elif c.id == 'GS_LOOP':
                    n = self.shape[1]
                elif c.id == 'ST_LOOP':
                    n = self.shape[2]
                elif n and not wrapper and not full and lim > 1 and self.ch.chance(.4):
                    if self.at_limit and lim <= 5 and self.ch.chance(.3):
                        n = lim
                        tag = 'loop-at-limit'
                    else:
                        n = min(lim, self.ch.integer(1, self.max_rep))
                for k in range(n):
                    mark = len(self.doc.segs)
                    cur0 = self.cur
                    if not self.loop(c, chain):
                        del self.doc.segs[mark:]
                        self.cur = cur0
                        if (c.usage == 'R' or forced) and not wrapper and k == 0:
                            raise GenFail('required loop cannot start: %s' % mm.path(c))
                        break
                    if tag and k == n - 1:
                        self.doc.segs[mark].tags.add(tag)
                    if k > 0:
                        self.doc.segs[mark].tags.add('loop-repeat')

    def loop(self, loop, chain):
        if not loop.children:
            return False
        self.inst += 1
        ch = chain + [(loop, self.inst)]
        f = loop.children[0]
        if f.kind == 'seg' and loop.type != 'wrapper':
            # (a wrapper - HEADER, DETAIL, FOOTER - is no loop of the standard: its first segment is a segment like the others and
            # may repeat within its own limit)
            if not self.emit(f, ch):
                return False
            self.children(loop, ch, 1)
            return True
        n0 = len(self.doc.segs)
        self.children(loop, ch, 0)
        return len(self.doc.segs) > n0

    def build(self):
        top = self.root.children[0]
        if top.id != 'ISA_LOOP':
            raise GenFail('map does not start with ISA_LOOP')
        self.children(self.root, [], 0)
        fixup(self.doc, self.ch.seed() % 10 ** 9)
        self.doc.stats = {'ambiguous_rejections': self.amb, 'draws': self.ch.n}
        if self.target is not None and not any(s.node is self.target for s in self.doc.segs):
            raise GenFail('target node not reached: %s' % mm.path(self.target))
        return self.doc


def fixup(doc, base):
    """envelope and numbering bookkeeping the reader checks"""
    e = doc.entry
    icvn = e['icvn']
    hl_n = st_n = gs_n = segct = lx = 0
    isa_n = 0
    stid = None
    hlmap = {}
    isa_ctl = None
    for s in doc.segs:
        sid = s.id
        v = s.vals
        n = s.node
        if sid == 'ISA':
            isa_n += 1
            isa_ctl = '%09d' % ((base + isa_n) % 10 ** 9)
            v[:] = [['00'], [' ' * 10], ['00'], [' ' * 10], ['ZZ'], ['SENDER'.ljust(15)], ['ZZ'], ['RECEIVER'.ljust(15)],
                    ['040101'], ['1230'], ['U' if icvn == '00401' else '^'], [icvn], [isa_ctl], ['0'], ['P'], [':']]
            gs_n = 0
            hlmap = {}
        elif sid == 'GS':
            while len(v) < 8:
                v.append([''])
            v[0] = [e['fic']]
            gs_n += 1
            v[5] = [str(gs_n)]
            v[7] = [e['vriic']]
            st_n = 0
        elif sid == 'ST':
            st_n += 1
            stid = '%04d' % st_n
            while len(v) < 2:
                v.append([''])
            v[1] = [stid]
            segct = 0
            hl_n = 0
            lx = 0
            hlmap = {}
            if len(n.children) > 2 and n.children[2].usage != 'N' and (n.children[2].usage == 'R' or len(v) > 2 and v[2] != ['']):
                while len(v) < 3:
                    v.append([''])
                v[2] = [e['vriic']]
        elif sid == 'SE':
            v[:] = [[str(segct + 1)], [stid]]
        elif sid == 'GE':
            v[:] = [[str(st_n)], [str(gs_n)]]
        elif sid == 'IEA':
            v[:] = [[str(gs_n)], [isa_ctl]]
        elif sid == 'HL':
            hl_n += 1
            own = s.chain[-1][1]
            par = None
            for (lnode, inst) in reversed(s.chain[:-1]):
                if inst in hlmap:
                    par = hlmap[inst]
                    break
            hlmap[own] = hl_n
            while len(v) < 3:
                v.append([''])
            v[0] = [str(hl_n)]
            if par is not None and len(n.children) > 1 and n.children[1].usage != 'N':
                v[1] = [str(par)]
            else:
                v[1] = ['']
        if sid == 'CLM':
            lx = 0
        if sid == 'LX' and doc.root.id.startswith('837'):
            lx += 1
            v[0] = [str(lx)]
        segct += 1


def build_doc(entry, ch, **kw):
    return Gen(entry, ch, **kw).build()


def merge_docs(docs):
    """One interchange whose functional groups come from several documents (possibly of different maps, same ISA version):
    the groups of docs[1:] are appended to the (single) interchange of docs[0]; group control numbers and the IEA count are
    renumbered, loop-instance numbers are made unique, every segment keeps its own map node."""
    base = docs[0]
    if sum(1 for s in base.segs if s.id == 'ISA') != 1:
        raise GenFail('merge needs a single-interchange base document')
    out = Doc(base.entry, base.root)
    out.stats = dict(base.stats)
    out.parts = [d.entry for d in docs]
    isa_chain = base.segs[0].chain[:1]
    segs = list(base.segs[:-1])
    off = max([inst for s in segs for (_n, inst) in s.chain] or [0]) + 1
    for d in docs[1:]:
        if d.icvn != base.icvn:
            raise GenFail('merge needs one ISA version')
        top = 0
        for s in d.segs:
            if s.id in ('ISA', 'IEA') or len(s.chain) < 2:
                continue          # interchange-level segments (TA1) stay those of the base document
            c = GSeg(s.node, s.vals, isa_chain + [(ln, inst + off) for (ln, inst) in s.chain[1:]])
            c.tags = set(s.tags)
            segs.append(c)
            top = max([top] + [inst for (_n, inst) in s.chain])
        off += top + 1
    segs.append(base.segs[-1])
    n = 0
    for s in segs:
        if getattr(s, 'raw_pattern', None) is not None:
            continue                                  # a malformed segment given as raw text
        if s.id == 'GS' and len(s.vals) > 5:
            n += 1
            s.vals[5] = [str(n)]
        elif s.id == 'GE' and len(s.vals) > 1:
            s.vals[1] = [str(n)]
        elif s.id == 'IEA' and len(s.vals) > 0:
            s.vals[0] = [str(n)]
    out.segs = segs
    return out
