"""Independent recount of an X12 envelope (reference model for C04, C06, C11, C20).

Input: list of (seg_id, [element strings]) in file order (simple elements; composites joined).
"""
import re
ENV = ('ISA', 'GS', 'ST', 'SE', 'GE', 'IEA')
ENV_CODES = {('isa', '025'), ('isa', '001'), ('isa', '021'), ('isa', '023'), ('isa', '024'), ('isa', '022'),
             ('gs', '6'), ('gs', '4'), ('gs', '5'), ('gs', '3'),
             ('st', '23'), ('st', '3'), ('st', '4'), ('st', '2'),
             ('seg', 'HL1'), ('seg', 'HL2'), ('seg', 'LX')}


_NUM = re.compile(r'-?[0-9]+\Z')


def toint(s):
    """the value of an X12 numeric (optional minus, ASCII digits, leading zeros allowed) or None - int() alone would also take
    '+4', ' 4', '0_4' and digits of other scripts"""
    if not isinstance(s, str) or not _NUM.match(s):
        return None
    return int(s)


def el(elems, i):
    """1-based element value or None"""
    return elems[i - 1] if 0 < i <= len(elems) else None


def well_nested(segs, strict_body=True):
    """True when the header/trailer segments form (ISA (GS (ST .. SE)* GE)* IEA)* or a prefix of it cut at end of
    input, with body segments only inside transaction sets."""
    depth = 0   # 0 outside, 1 in ISA, 2 in GS, 3 in ST
    for sid, _ in segs:
        if sid == 'ISA':
            if depth != 0:
                return False
            depth = 1
        elif sid == 'GS':
            if depth != 1:
                return False
            depth = 2
        elif sid == 'ST':
            if depth != 2:
                return False
            depth = 3
        elif sid == 'SE':
            if depth != 3:
                return False
            depth = 2
        elif sid == 'GE':
            if depth != 2:
                return False
            depth = 1
        elif sid == 'IEA':
            if depth != 1:
                return False
            depth = 0
        elif sid == 'TA1':
            # interchange acknowledgement: belongs to the interchange level, outside any functional group
            if depth != 1:
                return False
        else:
            if depth != 3 and strict_body:
                return False
    return True


def recount(segs, check_lx=False):
    """For a well-nested sequence: (per_segment, final, hl2_exact) where per_segment[i] is the sorted list of
    (level, code) discrepancies an independent recount attributes to segment i, final the missing-trailer
    discrepancies at end of input, and hl2_exact[i] tells whether the HL-parent verdict at segment i is defined
    (it is not after a second root HL of the same set)."""
    per = []
    exact = []
    isa_ids = set()
    gs_ids = set()
    st_ids = set()
    open_isa = open_gs = open_st = None
    n_gs = n_st = n_seg = n_hl = n_lx = 0
    path = []
    hl_defined = True
    for sid, e in segs:
        d = []
        ex = True
        if sid == 'ISA':
            ctl = el(e, 13) or ''        # an absent and an empty control number are the same value
            if ctl in isa_ids:
                d.append(('isa', '025'))
            isa_ids.add(ctl)
            open_isa = ctl
            n_gs = 0
            gs_ids = set()
        elif sid == 'GS':
            ctl = el(e, 6) or ''
            if ctl in gs_ids:
                d.append(('gs', '6'))
            gs_ids.add(ctl)
            open_gs = ctl
            n_gs += 1
            n_st = 0
            st_ids = set()
        elif sid == 'ST':
            ctl = el(e, 2) or ''
            if ctl in st_ids:
                d.append(('st', '23'))
            st_ids.add(ctl)
            open_st = ctl
            n_st += 1
            n_seg = 1
            n_hl = 0
            n_lx = 0
            path = []
            hl_defined = True
        elif sid == 'SE':
            if (el(e, 2) or '') != open_st:
                d.append(('st', '3'))
            if toint(el(e, 1)) != n_seg + 1:
                d.append(('st', '4'))
            open_st = None
        elif sid == 'GE':
            if (el(e, 2) or '') != open_gs:
                d.append(('gs', '4'))
            if toint(el(e, 1)) != n_st:
                d.append(('gs', '5'))
            open_gs = None
        elif sid == 'IEA':
            if (el(e, 2) or '') != open_isa:
                d.append(('isa', '001'))
            if toint(el(e, 1)) != n_gs:
                d.append(('isa', '021'))
            open_isa = None
        elif sid == 'TA1' and open_gs is None:
            pass
        else:
            n_seg += 1
            if sid == 'HL':
                n_hl += 1
                if toint(el(e, 1)) != n_hl:
                    d.append(('seg', 'HL1'))
                parent = el(e, 2)
                ex = hl_defined
                if parent is None or parent == '':
                    # a new top level (the next billing provider of an 837): everything under the earlier ones is closed
                    path = [n_hl]
                else:
                    p = toint(parent)
                    if p is None or p not in path:
                        # a parent that is not an open level: reported; the open levels stay, the HL joins them
                        d.append(('seg', 'HL2'))
                        path.append(n_hl)
                    else:
                        while path and path[-1] != p:
                            path.pop()
                        path.append(n_hl)
            elif check_lx and sid == 'CLM':
                n_lx = 0
            elif check_lx and sid == 'LX':
                n_lx += 1
                if toint(el(e, 1)) != n_lx:          # a number like the other counters: 01 is 1
                    d.append(('seg', 'LX'))
        per.append(sorted(d))
        exact.append(ex)
    final = []
    if open_st is not None:
        final.append(('st', '2'))
    if open_gs is not None:
        final.append(('gs', '3'))
    if open_isa is not None:
        final.append(('isa', '023'))
    return per, sorted(final), exact


def audit(segs):
    """All discrepancies of a complete interchange as a flat sorted list (used for acknowledgements and writer output)."""
    if not well_nested(segs):
        return [('structure', 'not-nested')]
    per, final, _ = recount(segs)
    out = [x for d in per for x in d] + final
    return sorted(out)
