"""Coverage-guided campaign for C07 (thorough tier): atheris/libFuzzer mutates an *edit script* over seed documents.

bytes -> (seed document, up to 6 edits (offset, operation, payload), sink subset, charset) -> the three entry points
of C07 with the same allowed-outcomes oracle inside the target.  A disallowed exception aborts the process; the
saved input is decoded again by `decode()` in the parent, which buckets it through props.c07.check_case.
"""
import sys

TOKENS = ['~', '*', ':', '^', '\n', ' ', 'ISA', 'IEA', 'GS', 'GE', 'ST', 'SE', 'HL', 'LX', 'CLM', 'NM1', 'REF', 'BHT', 'DTP', 'SV1', 'AK1', 'AK2',
          'AK9', 'TA1', '0', '1', '-1', 'X', '00401', '00501', '004010X098A1', '005010X222A1', '13', '11', '\x07', '*~', '~~', '**', '::', 'D8',
          'RD8', '20041301', '20040101-20040102', 'A' * 40]


def seeds():
    from vpx.props import fixtures
    out = []
    for name, text in fixtures.all_texts():
        if len(text) < 3500:
            out.append(text)
    return out[:16] or ['ISA*00*          *00*          *ZZ*SENDER         *ZZ*RECEIVER       *040101*1230*U*00401*000000001*0*P*:~IEA*0*000000001~']


def decode(data, seed_texts):
    import atheris
    fdp = atheris.FuzzedDataProvider(data)
    text = seed_texts[fdp.ConsumeIntInRange(0, len(seed_texts) - 1)]
    sinks = [fdp.ConsumeBool(), fdp.ConsumeBool(), fdp.ConsumeBool()]
    charset = 'B' if fdp.ConsumeBool() else 'E'
    for _ in range(fdp.ConsumeIntInRange(0, 6)):
        if not text:
            break
        off = fdp.ConsumeIntInRange(0, len(text))
        op = fdp.ConsumeIntInRange(0, 5)
        n = fdp.ConsumeIntInRange(0, 40)
        if op == 0:
            text = text[:off] + text[off + n:]
        elif op == 1:
            text = text[:off] + TOKENS[fdp.ConsumeIntInRange(0, len(TOKENS) - 1)] + text[off:]
        elif op == 2:
            tok = TOKENS[fdp.ConsumeIntInRange(0, len(TOKENS) - 1)]
            text = text[:off] + tok + text[off + len(tok):]
        elif op == 3:
            text = text[:off] + text[off:off + n] + text[off:]
        elif op == 4:
            text = text[:off]
        else:
            text = text[:off] + fdp.ConsumeUnicodeNoSurrogates(8) + text[off:]
    return {'text': text, 'sinks': [int(x) for x in sinks], 'charset': charset, 'loop_id': None, 'meta': {'ops': ['atheris']}}


def main():
    import atheris
    import pyx12.map_if          # not instrumented: map loading is configuration, not input handling
    with atheris.instrument_imports(include=['pyx12.x12file', 'pyx12.rawx12file', 'pyx12.segment', 'pyx12.map_walker', 'pyx12.nodeCounter',
                                             'pyx12.error_handler', 'pyx12.x12n_document', 'pyx12.x12context', 'pyx12.error_html',
                                             'pyx12.x12xml_simple', 'pyx12.xmlwriter', 'pyx12.error_997', 'pyx12.error_999', 'pyx12.path']):
        import pyx12.x12file
        import pyx12.x12n_document
        import pyx12.x12context
    from vpx.props import c07
    st = seeds()
    # loading and parsing a map costs ~0.2 s; the campaign re-uses loaded maps (history independence is C18's subject)
    orig = pyx12.map_if.load_map_file
    cache = {}

    def cached(map_file, param, map_path=None):
        k = (map_file, param.get('charset'), param.get('exclude_external_codes'), map_path)
        if k not in cache:
            cache[k] = orig(map_file, param, map_path)
        return cache[k]
    pyx12.map_if.load_map_file = cached
    pyx12.x12n_document.pyx12.map_if.load_map_file = cached

    def one(data):
        case = decode(data, st)
        out = c07.check_case(case)
        if out.failures:
            raise RuntimeError('C07 violation: %s' % out.failures[0][0])

    atheris.Setup(sys.argv, one)
    atheris.Fuzz()


if __name__ == '__main__':
    main()
