"""Reference X12 tokeniser / serialiser written from the ISA definition (independent of pyx12).

An interchange starts with a 106-character ISA: element separator at offset 3, component
separator at offset 104, segment terminator at offset 105, repetition separator at offset 82
when the version (offsets 84..88) is 00501.
"""
ISA_LEN = 106


class NotX12(Exception):
    pass


class RSeg(object):
    __slots__ = ('id', 'elems', 'lead_blank', 'trail_sep', 'raw', 'index')

    def __init__(self, sid, elems, lead_blank=False, trail_sep=False, raw=None, index=0):
        self.id = sid
        self.elems = elems          # list of list of str (components); ISA elements are single-component
        self.lead_blank = lead_blank
        self.trail_sep = trail_sep
        self.raw = raw
        self.index = index

    def trimmed(self):
        """elements with trailing empty components and trailing empty elements removed"""
        els = []
        for e in self.elems:
            e = list(e)
            while len(e) > 1 and e[-1] == '':
                e.pop()
            els.append(e)
        while els and all(c == '' for c in els[-1]):
            els.pop()
        return els

    def as_tuple(self):
        return (self.id, tuple(tuple(e) for e in self.elems))

    def __repr__(self):
        return 'RSeg(%r,%r)' % (self.id, self.elems)


def delimiters(text):
    if text[:3] != 'ISA' or len(text) < ISA_LEN:
        raise NotX12(text[:10])
    icvn = text[84:89]
    return {'ele': text[3], 'sub': text[104], 'term': text[105], 'icvn': icvn,
            'rep': text[82] if icvn == '00501' else None}


def universal_newlines(text):
    return text.replace('\r\n', '\n').replace('\r', '\n')


def split_segment(raw, d):
    parts = raw.split(d['ele'])
    sid = parts[0]
    if sid == 'ISA':
        elems = [[p] for p in parts[1:]]
    else:
        elems = [p.split(d['sub']) for p in parts[1:]]
    return sid, elems


def tokenize(text, keep_blank_only=False):
    """-> (delims, [RSeg]).  Text after the last terminator is an unterminated fragment and ignored."""
    d = delimiters(text)
    out = []
    pieces = text.split(d['term'])
    for raw in pieces[:-1]:
        raw = raw.lstrip('\r\n')
        if raw == '':
            continue
        lead = raw.startswith(' ')
        if lead:
            raw = raw.lstrip(' \r\n')       # blanks and the line breaks among them, nothing else
            if raw == '' and not keep_blank_only:
                continue
        trail = raw.endswith(d['ele'])
        sid, elems = split_segment(raw, d)
        out.append(RSeg(sid, elems, lead, trail, raw, len(out)))
    return d, out


def fmt_segment(seg, d):
    els = seg.trimmed() if isinstance(seg, RSeg) else seg[1]
    sid = seg.id if isinstance(seg, RSeg) else seg[0]
    return sid + d['ele'] + d['ele'].join(d['sub'].join(e) for e in els) + d['term']


def serialize(segs, d, eol=''):
    return ''.join(fmt_segment(s, d) + eol for s in segs)


def snapshot(seg):
    """Observe a pyx12 Segment through its public accessors -> (id, [[components]])"""
    sid = seg.get_seg_id()
    n = len(seg)
    elems = []
    for i in range(1, n + 1):
        ref = '%02d' % i
        k = seg.ele_len(ref)
        comps = []
        for j in range(1, k + 1):
            comps.append(seg.get_value('%s-%d' % (ref, j)))
        elems.append(comps)
    return sid, elems


def trim(elems):
    els = []
    for e in elems:
        e = list(e)
        while len(e) > 1 and e[-1] == '':
            e.pop()
        els.append(e)
    while els and all(c == '' for c in els[-1]):
        els.pop()
    return els


def make_isa(ele='*', sub=':', term='~', icvn='00401', rep='^', ctl='000000001', sender='SENDER', receiver='RECEIVER',
             ack='0', usage='P', date='040101', time='1230', sq='ZZ', rq='ZZ'):
    f = ['ISA', '00', ' ' * 10, '00', ' ' * 10, sq, sender.ljust(15)[:15], rq, receiver.ljust(15)[:15], date, time,
         (rep if icvn == '00501' else 'U'), icvn, ctl.rjust(9, '0')[:9], ack, usage, sub]
    s = ele.join(f) + term
    assert len(s) == ISA_LEN, len(s)
    return s
