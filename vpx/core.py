"""Shared machinery: accumulators, Hypothesis driver, pool, evidence, known findings, replay.

A *case* is a JSON-serialisable dict.  Every property module provides

    SHARDS(tier, seed)      -> list of shard specs (JSON-able), each run in a fresh process
    run_shard(spec, seed, tier) -> Acc
    check_case(case)        -> Outcome          (pure function of the case and /repo sources)
    RULE                    -> text of the generation / non-triviality rule
"""
import collections
import hashlib
import json
import os
import re
import signal
import sys
import time
import traceback

VERIF = os.path.dirname(os.path.dirname(os.path.abspath(__file__)))
REPO = os.environ.get('VPX_REPO', '/repo')
# evidence and replays normally go to /verif; sensitivity sweeps redirect them (VPX_OUT) so that they never clobber
# the evidence of the unchanged tree
OUTDIR = os.environ.get('VPX_OUT') or VERIF


class HarnessError(Exception):
    """A fault of the verification machinery itself (exit 2, never a violation)."""


class Inconclusive(Exception):
    """Case exceeded the per-case watchdog; counted, never a violation."""


def digest(obj):
    if not isinstance(obj, (str, bytes)):
        obj = json.dumps(obj, sort_keys=True, default=str)
    if isinstance(obj, str):
        obj = obj.encode('utf-8', 'surrogatepass')
    return hashlib.blake2b(obj, digest_size=8).hexdigest()


def slug(s, n=90):
    s = re.sub(r'[^A-Za-z0-9_.=-]+', '_', s).strip('_')
    if len(s) > n:
        s = s[:n - 9] + '_' + digest(s)[:8]
    return s or 'bucket'


class Outcome(object):
    """Result of checking one case."""
    __slots__ = ('failures', 'nontrivial', 'classes', 'key', 'excluded')

    def __init__(self, failures=None, nontrivial=False, classes=(), key=None, excluded=()):
        self.failures = list(failures or [])   # [(bucket, detail)]
        self.nontrivial = nontrivial
        self.classes = list(classes)
        self.key = key                          # distinctness key (any JSON-able / str); None -> digest of case
        self.excluded = list(excluded)          # names of known-finding triggers avoided for this case

    def fail(self, bucket, detail=''):
        self.failures.append((bucket, str(detail)[:2000]))


class Acc(object):
    """Picklable accumulator of one shard (mergeable)."""

    def __init__(self):
        self.evaluations = 0
        self.nontrivial = set()
        self.classes = collections.Counter()
        self.samples = []
        self.buckets = {}          # bucket -> dict(count, case, detail)
        self.inconclusive = 0
        self.excluded = collections.Counter()
        self.exhaustive = None     # None = not stated, else bool
        self.extra = {}
        self.harness_errors = []

    def add(self, case, out, sample_every=0):
        self.evaluations += 1
        if out.nontrivial:
            self.nontrivial.add(digest(out.key if out.key is not None else case))
        for c in out.classes:
            self.classes[c] += 1
        for e in out.excluded:
            self.excluded[e] += 1
        for bucket, detail in out.failures:
            b = self.buckets.get(bucket)
            if b is None:
                self.buckets[bucket] = {'count': 1, 'case': case, 'detail': detail}
            else:
                b['count'] += 1
                # keep the smallest witness
                if _size(case) < _size(b['case']):
                    b['case'] = case
                    b['detail'] = detail
        if len(self.samples) < 4 and (out.nontrivial or self.evaluations > 20) and not out.failures:
            if not self.samples or self.evaluations % 7 == 0 or len(self.samples) < 2:
                self.samples.append(_trim(case))

    def count(self, n=1, nontrivial_keys=(), classes=()):
        """Bulk accounting for enumerations (no per-case dict)."""
        self.evaluations += n
        for k in nontrivial_keys:
            self.nontrivial.add(digest(k))
        for c in classes:
            self.classes[c] += 1

    def fail(self, bucket, case, detail=''):
        b = self.buckets.get(bucket)
        if b is None:
            self.buckets[bucket] = {'count': 1, 'case': case, 'detail': str(detail)[:2000]}
        else:
            b['count'] += 1
            if _size(case) < _size(b['case']):
                b['case'] = case
                b['detail'] = str(detail)[:2000]

    def merge(self, other):
        self.evaluations += other.evaluations
        self.nontrivial |= other.nontrivial
        self.classes.update(other.classes)
        self.excluded.update(other.excluded)
        self.inconclusive += other.inconclusive
        for s in other.samples:
            if len(self.samples) < 6:
                self.samples.append(s)
        for k, b in other.buckets.items():
            mine = self.buckets.get(k)
            if mine is None:
                self.buckets[k] = dict(b)
            else:
                mine['count'] += b['count']
                if _size(b['case']) < _size(mine['case']):
                    mine['case'] = b['case']
                    mine['detail'] = b['detail']
        if other.exhaustive is not None:
            self.exhaustive = other.exhaustive if self.exhaustive is None else (self.exhaustive and other.exhaustive)
        for k, v in other.extra.items():
            if isinstance(v, (int, float)) and isinstance(self.extra.get(k, 0), (int, float)):
                self.extra[k] = self.extra.get(k, 0) + v
            elif isinstance(v, dict):
                d = self.extra.setdefault(k, {})
                for kk, vv in v.items():
                    if isinstance(vv, (int, float)):
                        d[kk] = d.get(kk, 0) + vv
                    else:
                        d[kk] = vv
            elif isinstance(v, list):
                self.extra.setdefault(k, [])
                self.extra[k] = (self.extra[k] + v)[:50]
            else:
                self.extra[k] = v
        self.harness_errors += other.harness_errors


def _size(case):
    try:
        return len(json.dumps(case, default=str))
    except Exception:
        return 10 ** 9


def _trim(obj, limit=1500):
    s = json.dumps(obj, default=str)
    if len(s) <= limit:
        return obj
    if isinstance(obj, dict):
        out = {}
        for k, v in obj.items():
            sv = json.dumps(v, default=str)
            out[k] = v if len(sv) <= 400 else (sv[:400] + '...[%d chars]' % len(sv))
        return out
    return s[:limit] + '...[%d chars]' % len(s)


# ---------------------------------------------------------------- watchdog

class watchdog(object):
    def __init__(self, seconds):
        self.seconds = seconds

    def _h(self, signum, frame):
        raise Inconclusive()

    def __enter__(self):
        self.old = signal.signal(signal.SIGALRM, self._h)
        signal.alarm(self.seconds)

    def __exit__(self, *a):
        signal.alarm(0)
        signal.signal(signal.SIGALRM, self.old)
        return False


# ---------------------------------------------------------------- Hypothesis driver

def hyp_collect(strategy, check_case, n, seed, acc, case_timeout=60, shrink_bucket=None, known=()):
    """Generate n cases from `strategy` (seeded), check each, collect into acc.

    Collect-then-shrink: with shrink_bucket=None no case raises, so Hypothesis keeps generating
    behind the first failure.  With shrink_bucket set, only that bucket raises and Hypothesis'
    shrinker minimises it; returns the minimal failing case (or None).
    """
    import hypothesis
    from hypothesis import given, settings, HealthCheck, Phase
    phases = [Phase.generate] if shrink_bucket is None else [Phase.generate, Phase.shrink]
    last = {'case': None, 'detail': None}

    @hypothesis.seed(seed)
    @settings(max_examples=n, database=None, deadline=None, derandomize=False,
              report_multiple_bugs=False, phases=phases,
              suppress_health_check=list(HealthCheck))
    @given(strategy)
    def t(case):
        try:
            with watchdog(case_timeout):
                out = check_case(case)
        except Inconclusive:
            acc.inconclusive += 1
            return
        if shrink_bucket is None:
            acc.add(case, out)
        else:
            for b, d in out.failures:
                if b == shrink_bucket:
                    last['case'] = case
                    last['detail'] = d
                    raise AssertionError(b)

    try:
        t()
    except AssertionError:
        if shrink_bucket is None:
            raise
    except MemoryError:
        # the code under test exhausted the address-space cap of this worker and what it leaked is still held: a failure
        # already recorded for it stands, the rest of the shard is abandoned; without a recorded failure the caller decides
        release_reserve()
        if not acc.buckets:
            raise
        acc.extra['abandoned_after_memory_error'] = acc.extra.get('abandoned_after_memory_error', 0) + 1
    except hypothesis.errors.Unsatisfiable as e:
        raise HarnessError('generator unsatisfiable: %s' % e)
    return last['case'], last['detail']


_RESERVE = []


def hold_reserve(mb=64, parts=3):
    """memory set aside at worker start so that a MemoryError caused by the code under test can still be reported"""
    del _RESERVE[:]
    for _ in range(parts):
        _RESERVE.append(bytearray(mb << 20))


def release_reserve():
    """give back one part of the reserve (each stage of reporting gets its own)"""
    if _RESERVE:
        _RESERVE.pop()
    import gc
    gc.collect()


def exc_bucket(e, prefix='exc'):
    """Bucket key for an exception: type + innermost pyx12 frame (file:function)."""
    tb = traceback.extract_tb(e.__traceback__)
    where = 'outside'
    for fr in reversed(tb):
        fn = fr.filename.replace('\\', '/')
        if '/pyx12/' in fn and '/vpx/' not in fn:
            where = '%s:%s' % (os.path.basename(fn), fr.name)
            break
    return '%s:%s@%s' % (prefix, type(e).__name__, where)


def exc_detail(e):
    tb = traceback.extract_tb(e.__traceback__)
    fr = tb[-1] if tb else None
    return '%s: %s (%s:%s %s)' % (type(e).__name__, str(e)[:300], os.path.basename(fr.filename) if fr else '?',
                                   fr.lineno if fr else '?', fr.name if fr else '?')


# ---------------------------------------------------------------- known findings

def load_known():
    p = os.path.join(VERIF, 'known_findings.json')
    if not os.path.exists(p):
        return []
    with open(p) as f:
        return json.load(f).get('findings', [])


def known_buckets(pid):
    return {k['bucket']: k for k in load_known() if k.get('property') == pid and k.get('status') == 'known'}
