"""Catalogue of single injected violations: (conformant Doc, location) -> (mutated Doc, expected report).

Expected codes come from the 997/999 code lists (segment: 1 unrecognised, 2 unexpected, 3 mandatory missing, 4 loop
over max, 5 segment over max use, 8 has element errors; element: 1 mandatory missing, 2 conditional missing, 3 too
many, 4 too short, 5 too long, 6 invalid character, 7 invalid code, 8 invalid date, 9 invalid time, 10 exclusion).
"""
import copy
import random

from . import mapmodel as mm, docgen

ENVELOPE = ('ISA', 'GS', 'ST', 'SE', 'GE', 'IEA', 'TA1')
ELEMENT_KINDS = ['too-long', 'too-short', 'not-in-code-list', 'wrong-char-class', 'control-char', 'bad-date', 'bad-time',
                 'required-removed', 'not-used-filled', 'extra-element', 'extra-component', 'syntax-note', 'date-format-mismatch']
SEGMENT_KINDS = ['unknown-segment', 'required-segment-removed', 'segment-over-max', 'loop-over-max', 'segment-out-of-place', 'loop-body-removed',
                 'required-loop-removed', 'table-first-segment-removed']
MALFORMED_KINDS = ['junk-segment']
KINDS = ELEMENT_KINDS + SEGMENT_KINDS


def clone(doc):
    d = docgen.Doc(doc.entry, doc.root)
    d.icvn = doc.icvn
    d.avoid = getattr(doc, 'avoid', '')
    for s in doc.segs:
        if isinstance(s, _Fake):
            g = _Fake(s.id, [list(x) for x in s.vals], s)
            g.raw_pattern = s.raw_pattern
        else:
            g = docgen.GSeg(s.node, [list(x) for x in s.vals], list(s.chain))
        g.tags = set(s.tags)
        d.segs.append(g)
    return d


def coords(doc, i):
    """(isa, gs, st, position in set) of segment i"""
    isa = gs = st = -1
    pos = 0
    for k, s in enumerate(doc.segs[:i + 1]):
        if s.id == 'ISA':
            isa += 1
            gs = -1
        elif s.id == 'GS':
            gs += 1
            st = -1
        elif s.id == 'ST':
            st += 1
            pos = 0
        pos += 1
    return isa, gs, st, pos


def _matching_refs(node):
    refs = {r for r, _ in mm.qual_tests(node)}
    refs |= {'01', '01-1'}
    if node.id == 'HL':
        refs |= {'01', '02', '03', '04'}
    if node.id == 'ENT':
        refs.add('02')
    if node.id in ('LX', 'BHT', 'DTP'):
        refs |= {'01', '02'}
    return refs


def _syntax_positions(node):
    out = set()
    for t in node.syntax:
        try:
            out |= set(docgen.parse_syn(t)[1])
        except Exception:
            pass
    return out


def element_sites(doc):
    """yield (seg index, ele index0, comp index0 or None, element node, current value)"""
    for i, s in enumerate(doc.segs):
        if s.id in ENVELOPE:
            continue
        node = s.node
        mref = _matching_refs(node)
        for ei, c in enumerate(node.children):
            ref = '%02d' % (ei + 1)
            if c.kind == 'ele':
                if ref in mref or c.de in ('1250', '1251'):
                    continue
                v = s.vals[ei][0] if ei < len(s.vals) else ''
                yield i, ei, None, c, v
            else:
                for ci, sc in enumerate(c.children):
                    if '%s-%d' % (ref, ci + 1) in mref or ref in mref and ci == 0:
                        continue
                    v = ''
                    if ei < len(s.vals) and ci < len(s.vals[ei]):
                        v = s.vals[ei][ci]
                    yield i, ei, ci, sc, v


def _set(seg, ei, ci, v):
    while len(seg.vals) <= ei:
        seg.vals.append([''])
    if ci is None:
        seg.vals[ei] = [v]
    else:
        while len(seg.vals[ei]) <= ci:
            seg.vals[ei].append('')
        seg.vals[ei][ci] = v


def candidates(doc, kind):
    """list of location descriptors for this fault kind"""
    out = []
    if kind in ELEMENT_KINDS and kind not in ('extra-element', 'extra-component', 'syntax-note', 'date-format-mismatch'):
        for (i, ei, ci, n, v) in element_sites(doc):
            if n.dtype is None:
                continue
            t, lo, hi = n.dtype, n.minl, n.maxl
            num = t == 'R' or t[0] == 'N'
            comp_parent = n.parent if n.parent.kind == 'comp' else None
            if comp_parent is not None and comp_parent.usage == 'N':
                continue
            present = v != ''
            # a component of an otherwise empty optional composite: filling it makes required siblings missing
            if comp_parent is not None and not present:
                continue
            if kind == 'too-long' and present and n.usage != 'N' and hi < 200 and not n.codes and not n.ext and t in ('AN', 'R', 'N0', 'N2', 'N', 'ID'):
                out.append((i, ei, ci))
            elif kind == 'too-short' and present and n.usage != 'N' and lo >= 2 and not n.codes and not n.ext and t in ('AN', 'ID', 'N0', 'R', 'N2'):
                out.append((i, ei, ci))
            elif kind == 'not-in-code-list' and present and n.usage != 'N' and (n.codes or n.ext):
                out.append((i, ei, ci))
            elif kind == 'wrong-char-class' and present and n.usage != 'N' and not n.codes and not n.ext and (num or t == 'AN') and not n.regex:
                out.append((i, ei, ci))
            elif kind == 'control-char' and present and n.usage != 'N' and t == 'AN' and hi >= 2:
                out.append((i, ei, ci))
            elif kind == 'bad-date' and present and n.usage != 'N' and t == 'DT' and lo <= 8 <= hi:
                out.append((i, ei, ci))
            elif kind == 'bad-time' and present and n.usage != 'N' and t == 'TM' and lo <= 4 <= hi:
                out.append((i, ei, ci))
            elif kind == 'required-removed' and present and n.usage == 'R' and (ei + 1) not in _syntax_positions(doc.segs[i].node):
                if comp_parent is not None and sum(1 for x in doc.segs[i].vals[ei] if x != '') <= 1:
                    continue    # would empty the composite: a different fault
                out.append((i, ei, ci))
            elif kind == 'not-used-filled' and n.usage == 'N' and not present and comp_parent is None \
                    and (ei + 1) not in _syntax_positions(doc.segs[i].node):
                out.append((i, ei, ci))
    elif kind == 'date-format-mismatch':
        # a date/time-period element (1251) whose value is well formed, but in another format than its qualifier (1250) declares
        for i, s in enumerate(doc.segs):
            if s.id in ENVELOPE:
                continue
            q = [(ei, c) for ei, c in enumerate(s.node.children) if c.kind == 'ele' and c.de == '1250']
            d = [(ei, c) for ei, c in enumerate(s.node.children) if c.kind == 'ele' and c.de == '1251']
            if not q or not d:
                continue
            qi, qn = q[0]
            di, dn = d[0]
            if qi < len(s.vals) and di < len(s.vals) and s.vals[qi][0] in docgen.FMTS and s.vals[di][0] != '':
                out.append((i, di, None))
    elif kind == 'extra-element':
        for i, s in enumerate(doc.segs):
            if s.id not in ENVELOPE and s.node.children:
                out.append((i, len(s.node.children), None))
    elif kind == 'extra-component':
        for i, s in enumerate(doc.segs):
            if s.id in ENVELOPE:
                continue
            for ei, c in enumerate(s.node.children):
                if c.kind == 'comp' and c.usage != 'N' and ei < len(s.vals) and any(s.vals[ei]) and ei > 0:
                    out.append((i, ei, len(c.children)))
    elif kind == 'syntax-note':
        for i, s in enumerate(doc.segs):
            if s.id in ENVELOPE:
                continue
            for t in s.node.syntax:
                try:
                    k, idx = docgen.parse_syn(t)
                except Exception:
                    continue
                if not all(1 <= x <= len(s.node.children) for x in idx):
                    continue
                out.append((i, t, None))
    elif kind == 'unknown-segment':
        for i, s in enumerate(doc.segs):
            if s.id not in ENVELOPE and s.id != 'HL':
                out.append((i, None, None))
    elif kind == 'junk-segment':
        for i, s in enumerate(doc.segs):
            if s.id not in ('ISA', 'IEA'):
                for pat in ('E', 'EE', 'EX', 'XE', 'ESE', 'Z9EAEE', 'zzEA', 'ABCDEA', 'AE'):
                    out.append((i, pat, None))
    elif kind == 'required-segment-removed':
        for i, s in enumerate(doc.segs):
            if s.id in ENVELOPE or s.node.usage != 'R':
                continue
            if s.node.parent.children[0] is s.node:
                continue      # first segment of a loop: removing it removes the loop entry
            # only one instance of this node in this loop instance
            same = [x for x in doc.segs if x.node is s.node and x.chain == s.chain]
            if len(same) == 1 and i + 1 < len(doc.segs):
                out.append((i, None, None))
    elif kind == 'segment-over-max':
        for i, s in enumerate(doc.segs):
            if s.id in ENVELOPE or s.id in ('HL', 'LX'):
                continue
            lim = mm.limit(s.node.max_use)
            if lim > 3 or s.node.parent.children[0] is s.node:
                continue
            same = [x for x in doc.segs if x.node is s.node and x.chain == s.chain]
            if same and same[-1] is s:
                out.append((i, lim - len(same) + 1, None))
    elif kind == 'loop-over-max':
        for i, s in enumerate(doc.segs):
            if s.id in ENVELOPE or not s.chain:
                continue
            loop = s.chain[-1][0]
            if loop.children[0] is not s.node or loop.type == 'wrapper':
                continue
            lim = mm.limit(loop.repeat)
            if lim > 2 or any(x.kind == 'loop' for x in loop.children):
                continue
            if s.id in ('HL', 'LX'):
                continue
            # instances of this loop under the same parent instance
            parent_chain = s.chain[:-1]
            firsts = [x for x in doc.segs if x.node is s.node and x.chain[:-1] == parent_chain]
            if firsts and firsts[-1] is s:
                out.append((i, lim - len(firsts) + 1, None))
    elif kind == 'required-loop-removed':
        # the only instance of a required loop taken out whole: a missing required segment that leaves every neighbour where it was
        for i, s in enumerate(doc.segs):
            if s.id in ENVELOPE or s.id == 'HL' or not s.chain:
                continue
            loop = s.chain[-1][0]
            if loop.children[0] is not s.node or loop.type == 'wrapper' or loop.usage != 'R':
                continue
            if len([x for x in doc.segs if x.node is s.node and x.chain[:-1] == s.chain[:-1]]) != 1:
                continue
            depth = len(s.chain)
            end = i + 1
            while end < len(doc.segs) and len(doc.segs[end].chain) >= depth and doc.segs[end].chain[:depth] == s.chain:
                end += 1
            if end >= len(doc.segs) or any(x.id == 'HL' for x in doc.segs[i:end]):
                continue
            out.append((i, end, None))
    elif kind == 'table-first-segment-removed':
        # the required first segment of a table (BHT, BPR, BGN ... - first child of a HEADER/DETAIL/FOOTER wrapper, which is no
        # X12 loop) taken out; the rest of the table stays
        for i, s in enumerate(doc.segs):
            if s.id in ENVELOPE or not s.chain or s.node.usage != 'R':
                continue
            loop = s.chain[-1][0]
            if loop.type != 'wrapper' or loop.children[0] is not s.node:
                continue
            if len([x for x in doc.segs if x.node is s.node and x.chain == s.chain]) != 1 or i + 1 >= len(doc.segs):
                continue
            if doc.segs[i + 1].chain[:len(s.chain)] != s.chain:
                continue          # nothing else of this table present
            out.append((i, None, None))
    elif kind == 'loop-body-removed':
        # a loop instance cut down to its first segment, followed at once by the next instance of the same loop
        for i, s in enumerate(doc.segs):
            if s.id in ENVELOPE or s.id == 'HL' or not s.chain:
                continue
            loop = s.chain[-1][0]
            if loop.children[0] is not s.node or loop.type == 'wrapper':
                continue
            if not any(c.usage == 'R' for c in loop.children[1:]):
                continue
            depth = len(s.chain)
            end = i + 1
            while end < len(doc.segs) and len(doc.segs[end].chain) >= depth and doc.segs[end].chain[:depth] == s.chain:
                end += 1
            # the same situation made by putting a bare copy of the first segment in front of an instance (when the loop may repeat)
            siblings = [x for x in doc.segs if x.node is s.node and x.chain[:-1] == s.chain[:-1]]
            if mm.limit(loop.repeat) > len(siblings) and not any(x.id == 'HL' for x in doc.segs[i:end]):
                out.append((i, i, None))
            if end == i + 1 or end >= len(doc.segs):
                continue
            nxt = doc.segs[end]
            if nxt.node is not s.node or nxt.chain[:-1] != s.chain[:-1]:
                continue
            if any(x.id == 'HL' for x in doc.segs[i:end]):
                continue
            out.append((i, end, None))
    return out


def bad_value(kind, n, v, r, icvn=None, avoid=''):
    t, lo, hi = n.dtype, n.minl, n.maxl
    num = t == 'R' or t[0] == 'N'
    if kind == 'too-long':
        if not num and t == 'AN' and hi >= 3 and r.random() < .4:
            # one character too long, with the characters that do not count towards the length of a *number*
            return ('Z-.' * (hi + 1))[:hi] + 'Z'
        return ('9' if num else 'Z') * (hi + 1)
    if kind == 'too-short':
        return ('9' if num else 'Z') * (lo - 1)
    if kind == 'not-in-code-list':
        pool = set(n.codes)
        if n.ext:
            pool |= set(mm.codes().get(n.ext, []))
        for cand in ['ZZ', 'QQ', 'XQ', 'Q9', 'ZQZ', 'QQQ', 'ZZZZ', 'Q', 'Z', 'QZQZQ', 'ZQZQZQ', '99', '9', '999']:
            if cand not in pool and lo <= len(cand) <= hi and (t not in ('N0', 'N', 'R', 'N2') or cand.isdigit()):
                return cand
        return None
    if kind == 'wrong-char-class':
        n_ = max(lo, min(hi, 3))
        if num:
            return 'A' * n_
        if icvn == '00401' and n_ >= 1 and r.random() < .5:
            # the two characters that joined the extended set with 5010 only
            return 'Z' * (n_ - 1) + r.choice([c_ for c_ in '^`' if c_ not in avoid] or ['\xe9'])
        return ('Z' * (n_ - 1) + '\xe9') if n_ >= 1 else None
    if kind == 'control-char':
        n_ = max(lo, 2)
        return 'Z' * (n_ - 1) + '\x07'
    if kind == 'bad-date':
        return r.choice(['20040230', '20040200', '20040132', '20041301', '20040001', '20230229', '21000229', '17991231', '20040431'])
    if kind == 'bad-time':
        # hour, minute or second out of range, in every spelling the element's length admits (HHMM, HHMMSS, HHMMSSd, HHMMSSdd)
        pool = ['2460', '2400', '1260', '9999', '120060', '235999', '246000', '1200601', '2359995', '12006012', '23599999', '12600000']
        return r.choice([v_ for v_ in pool if lo <= len(v_) <= hi] or ['2460'])
    if kind == 'required-removed':
        return ''
    if kind == 'not-used-filled':
        if num:
            return '9' * max(1, lo)
        if t == 'DT':
            return '20040101'[:max(6, lo)] if lo <= 6 else '20040101'
        if t == 'TM':
            return '1230'
        return 'Z' * max(1, lo)
    return None


EXPECT = {
    'too-long': {'5'}, 'too-short': {'4'}, 'not-in-code-list': {'7'}, 'wrong-char-class': {'6'}, 'control-char': {'6'},
    'bad-date': {'8'}, 'bad-time': {'9'}, 'required-removed': {'1'}, 'not-used-filled': {'10', 'I10'},
    'extra-element': {'3'}, 'extra-component': {'3'},
}


def inject(doc, kind, loc, seed):
    """-> (mutated doc, expectation dict) or None when this location turns out not to be applicable"""
    r = random.Random(seed)
    d = clone(doc)
    i = loc[0]
    s = d.segs[i]
    exp = {'kind': kind, 'seg_id': s.id, 'node': mm.path(s.node)}
    if kind in EXPECT and kind not in ('extra-element', 'extra-component'):
        ei, ci = loc[1], loc[2]
        c = s.node.children[ei]
        n = c if ci is None else c.children[ci]
        old = s.vals[ei][ci if ci is not None else 0] if ei < len(s.vals) and (ci or 0) < len(s.vals[ei]) else ''
        v = bad_value(kind, n, old, r, doc.icvn, getattr(doc, 'avoid', ''))
        if kind == 'not-in-code-list' and n.ext and r.random() < .5:
            # a value that is a member of ANOTHER external code list and occurs in this very document under that list
            pool = set(mm.codes().get(n.ext, [])) | set(n.codes)
            seen = []
            for sg in d.segs:
                for ei2, c2 in enumerate(sg.node.children):
                    kids = [(c2, None)] if c2.kind == 'ele' else [(x, j) for j, x in enumerate(c2.children)]
                    for n2, cj in kids:
                        if n2.ext and n2.ext != n.ext and ei2 < len(sg.vals):
                            val2 = sg.vals[ei2][cj or 0] if (cj or 0) < len(sg.vals[ei2]) else ''
                            if val2 and val2 not in pool and n.minl <= len(val2) <= n.maxl:
                                seen.append(val2)
            if seen:
                v = r.choice(seen)
        if v is None or v == old:
            return None
        _set(s, ei, ci, v)
        if kind == 'required-removed' and ci is not None and r.random() < .6:
            # the usual spelling of a composite that lost its last component(s): trailing separators trimmed
            while len(s.vals[ei]) > 1 and s.vals[ei][-1] == '':
                s.vals[ei].pop()
        if not any(any(x) for x in s.vals):
            return None      # would leave an empty segment: a different fault
        exp.update(ele=ei + 1, sub=(ci + 1) if ci is not None else None, codes=sorted(EXPECT[kind]), value=v or None, local=True, level='ele')
    elif kind == 'date-format-mismatch':
        di = loc[1]
        qi = [ei for ei, c in enumerate(s.node.children) if c.kind == 'ele' and c.de == '1250'][0]
        cur = s.vals[qi][0]
        # only pairs where a well-formed value of the other format is NOT also a value of the declared one
        # (an 8-digit date is a valid DT, and 20040101 reads as a valid HHMMSSdd time)
        other = {'D8': ['RD8', 'TM', 'DT'], 'RD8': ['D8', 'TM'], 'D6': ['D8', 'RD8'], 'DT': ['RD8', 'TM'], 'TM': ['RD8']}.get(cur, ['RD8'])
        fmt = r.choice(other)
        v = docgen.fmt_value(fmt, r)
        # prefer a value that another instance of this very node carries, legitimately, under another format in this document
        seen = [sg.vals[di][0] for sg in d.segs if sg is not s and sg.node is s.node and qi < len(sg.vals) and di < len(sg.vals)
                and sg.vals[qi][0] in other and sg.vals[di][0]]
        if seen and r.random() < .7:
            v = r.choice(seen)
        impossible = {'D8': ['20040230', '20041301', '20040100'], 'RD8': ['20040101-20040230', '20041301-20050101', '20040131-20040132'],
                      'DT': ['200401012460', '200401011260', '200402301200', '200413011200', '200401019999'],
                      'TM': ['2460', '1260', '9999'], 'D6': ['040230', '041301']}.get(cur)
        if impossible and r.random() < .35:
            # ... or a value of the DECLARED format that names no date or time (for CCYYMMDDHHMM: in the date or in the time part)
            v = r.choice(impossible)
        n = s.node.children[di]
        if not (n.minl <= len(v) <= n.maxl):
            return None
        s.vals[di] = [v]
        exp.update(ele=di + 1, sub=None, codes=['8', '9'], value=v, local=True, level='ele')
    elif kind == 'extra-element':
        ei = loc[1]
        while len(s.vals) < ei:
            s.vals.append([''])
        s.vals.append(['X'])
        exp.update(ele=ei + 1, sub=None, codes=['3'], value='X', local=True, level='ele')
    elif kind == 'extra-component':
        ei, nci = loc[1], loc[2]
        while len(s.vals[ei]) < nci:
            s.vals[ei].append('')
        s.vals[ei].append('X')
        exp.update(ele=ei + 1, sub=None, codes=['3'], value=None, local=True, level='ele', any_sub=True)
    elif kind == 'syntax-note':
        t = loc[1]
        k, idx = docgen.parse_syn(t)
        present = {x for x in idx if x - 1 < len(s.vals) and any(s.vals[x - 1])}
        node = s.node
        usable = lambda x: node.children[x - 1].usage != 'N' and node.children[x - 1].kind == 'ele' and ('%02d' % x) not in _matching_refs(node) \
            and node.children[x - 1].de not in ('1250', '1251') and node.children[x - 1].dtype is not None
        target = None
        others = _syntax_positions_other(node, t)
        if k == 'P' and present and len(present) == len(idx):
            c_ = [x for x in idx if node.children[x - 1].usage == 'S' and usable(x) and x not in others]
            if c_:
                target = ('remove', c_[-1])
        elif k == 'P' and not present:
            c_ = [x for x in idx if usable(x) and x not in others]
            if c_:
                target = ('add', c_[0])
        elif k == 'E' and len(present) == 1:
            c_ = [x for x in idx if x not in present and usable(x) and x not in others]
            if c_:
                target = ('add', c_[0])
        elif k == 'C' and idx[0] in present:
            c_ = [x for x in idx[1:] if node.children[x - 1].usage == 'S' and usable(x) and x not in others]
            if c_:
                target = ('remove', c_[-1])
        elif k == 'C' and idx[0] not in present and not (set(idx[1:]) <= present):
            if usable(idx[0]) and idx[0] not in others:
                target = ('add', idx[0])
        elif k == 'L' and idx[0] not in present and not (set(idx[1:]) & present):
            if usable(idx[0]) and idx[0] not in others:
                target = ('add', idx[0])
        elif k == 'R' and len(present) == 1:
            x = list(present)[0]
            if node.children[x - 1].usage == 'S' and usable(x) and x not in others:
                target = ('remove', x)
        if target is None:
            return None
        op, x = target
        n = node.children[x - 1]
        if op == 'remove':
            _set(s, x - 1, None, '')
        else:
            try:
                v = docgen.Values('~*:^').simple(n, r)
            except docgen.GenFail:
                return None
            _set(s, x - 1, None, v)
        if not any(any(e) for e in s.vals):
            return None
        exp.update(ele=x, sub=None, codes=['10'] if k == 'E' else ['2'], value=None, local=True, level='ele', note=t, note_positions=idx)
    elif kind == 'unknown-segment':
        d.segs.insert(i + 1, _Fake('ZZZ', [['X1'], ['X2']], s))
        exp.update(seg_index=i + 1, seg_id='ZZZ', ele=None, sub=None, codes=['1', '2', '6', '7'], value=None, local=True, level='seg')
        i = i + 1
    elif kind == 'junk-segment':
        j = _Fake('', [], s)
        j.raw_pattern = loc[1]
        d.segs.insert(i + 1, j)
        exp.update(seg_index=i + 1, seg_id=None, ele=None, sub=None, codes=['1', '2', '6', '7', '8'], value=None, local=False, level='seg', pattern=loc[1])
        i = i + 1
    elif kind == 'required-segment-removed':
        del d.segs[i]
        nxt = d.segs[i]
        # segments that follow at the same map position (siblings in free order) may legitimately delay the report
        slack = 0
        for x in d.segs[i:]:
            if x.node.parent is s.node.parent and x.node.pos == s.node.pos and x.chain == s.chain:
                slack += 1
            else:
                break
        exp['pos_slack'] = slack
        prev = d.segs[i - 1]
        loop = s.chain[-1][0] if s.chain else None
        if loop is not None and prev.chain == s.chain and loop.children[0] is prev.node and nxt.node is prev.node \
                and all(x.chain != s.chain for x in d.segs[i:]):
            # the loop instance is left with only its first segment and the same loop repeats at once
            exp['immediate_repeat'] = True
        exp.update(seg_id=None, removed=s.id, ele=None, sub=None, codes=['3'], value=None, local=False, level='seg', next_id=nxt.id)
    elif kind == 'required-loop-removed':
        end = loc[1]
        loop = s.chain[-1][0]
        depth = len(s.chain)
        del d.segs[i:end]
        nxt = d.segs[i]
        slack = 0
        for x in d.segs[i:]:
            # sibling loops at the same map position (free order) may legitimately delay the report
            if len(x.chain) >= depth and x.chain[:depth - 1] == s.chain[:-1] and x.chain[depth - 1][0].pos == loop.pos:
                slack += 1
            else:
                break
        exp.update(seg_id=None, removed=s.id, removed_loop=loop.id, ele=None, sub=None, codes=['3'], value=None, local=False, level='seg',
                   next_id=nxt.id, pos_slack=slack)
    elif kind == 'table-first-segment-removed':
        del d.segs[i]
        nxt = d.segs[i]
        exp.update(seg_id=None, removed=s.id, ele=None, sub=None, codes=['3'], value=None, local=False, level='seg', next_id=nxt.id, pos_slack=0)
    elif kind == 'segment-over-max':
        extra = loc[1]
        if extra < 1:
            return None
        for k in range(extra):
            g = docgen.GSeg(s.node, [list(x) for x in s.vals], list(s.chain))
            d.segs.insert(i + 1, g)
        i = i + extra
        exp.update(ele=None, sub=None, codes=['5'], value=None, local=True, level='seg')
    elif kind == 'loop-over-max':
        extra = loc[1]
        # copy the whole loop instance
        inst = [x for x in d.segs if len(x.chain) >= len(s.chain) and x.chain[:len(s.chain)] == s.chain]
        last = max(d.segs.index(x) for x in inst)
        at = last + 1
        first_new = None
        for k in range(extra):
            for x in inst:
                g = docgen.GSeg(x.node, [list(y) for y in x.vals], list(x.chain))
                d.segs.insert(at, g)
                if x is inst[0]:
                    first_new = at
                at += 1
        if first_new is None:
            return None
        i = first_new
        exp.update(ele=None, sub=None, codes=['4'], value=None, local=False, level='seg')
    elif kind == 'segment-out-of-place':
        return None
    elif kind == 'loop-body-removed':
        end = loc[1]
        loop = s.chain[-1][0]
        missing = []
        for c in loop.children[1:]:
            if c.usage != 'R':
                continue
            if c.kind == 'seg':
                missing.append(c.id)
            elif c.kind == 'loop' and c.children and c.children[0].kind == 'seg':
                missing.append(c.children[0].id)
        if end == i:
            top = max([inst for x in d.segs for (_n, inst) in x.chain] or [0]) + 1
            d.segs.insert(i, docgen.GSeg(s.node, [list(x) for x in s.vals], list(s.chain[:-1]) + [(loop, top)]))
        else:
            del d.segs[i + 1:end]
        i = i + 1
        exp.update(seg_id=None, removed_list=missing, ele=None, sub=None, codes=['3'], value=None, local=False, level='seg', immediate_repeat=True)
    docgen.fixup(d, 4242)
    isa, gs, st, pos = coords(d, i)
    exp.update(isa=isa, gs=gs, st=st, pos=pos, seg_index=i)
    return d, exp


def _syntax_positions_other(node, t):
    out = set()
    for u in node.syntax:
        if u == t:
            continue
        try:
            out |= set(docgen.parse_syn(u)[1])
        except Exception:
            pass
    return out


class _Fake(docgen.GSeg):
    """a segment that belongs to no map node"""
    __slots__ = ('_id', 'raw_pattern')

    def __init__(self, sid, vals, after):
        docgen.GSeg.__init__(self, after.node, vals, list(after.chain))
        self._id = sid
        self.raw_pattern = None

    @property
    def id(self):
        return self._id
