"""Independent reading of the shipped configuration (maps.xml, map files, dataele.xml, codes.xml).

Deliberately does not import pyx12.map_if: a change to map loading, ordering, code lists or data-element lookup
in pyx12 shows up as a disagreement with documents/oracles built from this model.
"""
import os
import xml.etree.ElementTree as et

from . import core

_cache = {}


def mapdir():
    return os.path.join(core.REPO, 'pyx12', 'map')


def g(e, k):
    v = e.get(k)
    return v if v else e.findtext(k)


class N(object):
    kind = None

    def __repr__(self):
        return '<%s %s>' % (self.kind, getattr(self, 'id', '?'))


def dataele():
    if 'de' not in _cache:
        de = {}
        for e in et.parse(os.path.join(mapdir(), 'dataele.xml')).iter('data_ele'):
            de[e.get('ele_num')] = (e.get('data_type'), int(e.get('min_len')), int(e.get('max_len')))
        _cache['de'] = de
    return _cache['de']


def codes():
    if 'codes' not in _cache:
        c = {}
        for cs in et.parse(os.path.join(mapdir(), 'codes.xml')).iter('codeset'):
            c[cs.findtext('id')] = [x.text for x in cs.iterfind('version/code')]
        _cache['codes'] = c
    return _cache['codes']


def index():
    """list of dict(icvn, vriic, fic, tspc, file, abbr) in file order"""
    out = []
    for v in et.parse(os.path.join(mapdir(), 'maps.xml')).iter('version'):
        for m in v.iterfind('map'):
            out.append(dict(icvn=v.get('icvn'), vriic=m.get('vriic'), fic=m.get('fic'), tspc=m.get('tspc'),
                            file=m.text, abbr=m.get('abbr')))
    return out


def mk_ele(e, parent):
    n = N()
    n.kind = 'ele'
    n.id = e.get('xid')
    n.usage = g(e, 'usage')
    n.seq = int(g(e, 'seq'))
    n.de = g(e, 'data_ele')
    n.name = g(e, 'name')
    n.codes = [c.text for c in e.findall('valid_codes/code')]
    vc = e.find('valid_codes')
    n.ext = vc.get('external') if vc is not None else None
    n.regex = e.findtext('regex')
    n.parent = parent
    n.dtype, n.minl, n.maxl = dataele().get(n.de, (None, None, None))
    return n


def mk_comp(e, parent):
    n = N()
    n.kind = 'comp'
    n.id = e.get('xid') or e.findtext('refdes')
    n.usage = g(e, 'usage')
    n.seq = int(g(e, 'seq'))
    n.de = g(e, 'data_ele')
    n.name = g(e, 'name')
    n.parent = parent
    n.children = [mk_ele(x, n) for x in e.findall('element')]
    n.children.sort(key=lambda x: x.seq)
    return n


def mk_seg(e, parent):
    n = N()
    n.kind = 'seg'
    n.id = e.get('xid')
    n.usage = g(e, 'usage')
    n.pos = int(g(e, 'pos'))
    n.max_use = g(e, 'max_use')
    n.name = g(e, 'name')
    n.parent = parent
    n.syntax = [s.text for s in e.findall('syntax')]
    ch = []
    for x in e:
        if x.tag == 'element':
            ch.append(mk_ele(x, n))
        elif x.tag == 'composite':
            ch.append(mk_comp(x, n))
    ch.sort(key=lambda x: x.seq)
    n.children = ch
    return n


def mk_loop(e, parent):
    n = N()
    n.kind = 'loop'
    n.id = e.get('xid')
    n.usage = g(e, 'usage')
    n.pos = int(g(e, 'pos'))
    n.repeat = g(e, 'repeat')
    n.type = e.get('type')
    n.name = g(e, 'name')
    n.parent = parent
    order = {id(x): i for i, x in enumerate(list(e))}
    kids = []
    for x in e.findall('loop'):
        k = mk_loop(x, n)
        k.decl = order.get(id(x), 0)
        kids.append(k)
    for x in e.findall('segment'):
        k = mk_seg(x, n)
        k.decl = order.get(id(x), 0)
        kids.append(k)
    kids.sort(key=lambda c: c.pos)   # stable: at equal position loops come before segments
    n.children = kids
    return n


def load_map(fname):
    if ('map', fname) in _cache:
        return _cache[('map', fname)]
    root = et.parse(os.path.join(mapdir(), fname)).getroot()
    r = N()
    r.kind = 'root'
    r.id = root.get('xid')
    r.parent = None
    r.pos = 0
    r.file = fname
    kids = [mk_loop(x, r) for x in root.findall('loop')] + [mk_seg(x, r) for x in root.findall('segment')]
    kids.sort(key=lambda c: c.pos)
    r.children = kids
    _cache[('map', fname)] = r
    return r


def path(n):
    p = []
    while n is not None and n.kind != 'root':
        p.append(n.id or '?')
        n = n.parent
    return '/' + '/'.join(reversed(p))


def loop_path(seg):
    """list of loop ids from the root down to the loop holding `seg`"""
    p = []
    n = seg.parent
    while n is not None and n.kind != 'root':
        p.append(n.id)
        n = n.parent
    return list(reversed(p))


def walk(n):
    yield n
    for c in getattr(n, 'children', []) or []:
        for x in walk(c):
            yield x


def limit(x):
    if x is None or x in ('>1', '&gt;1'):
        return 10 ** 9
    return int(x)


def first_seg_nodes(loop):
    """segment nodes through which this loop can be entered"""
    if not loop.children:
        return []
    f = loop.children[0]
    if f.kind == 'seg':
        return [f]
    out = []
    for c in loop.children:
        if c.kind == 'loop':
            out += first_seg_nodes(c)
    return out


# ---- the published matching rule (segment id plus qualifier), written as an ordered list of tests

def qual_tests(seg):
    """[(refdes, codes)] : every test must pass (value in codes) for the node to match a segment with its id.
    Mirrors the documented rule: first element if a required ID with a code list; ENT02; first component of a
    leading composite (ID, or AN for CTX); HL03."""
    c = seg.children
    tests = []
    if not c:
        return tests
    if c[0].kind == 'ele' and c[0].dtype == 'ID' and c[0].usage == 'R' and c[0].codes:
        tests.append(('01', c[0].codes))
    if seg.id == 'ENT' and len(c) > 1 and c[1].kind == 'ele' and c[1].dtype == 'ID' and c[1].codes:
        tests.append(('02', c[1].codes))
    if seg.id == 'CTX' and c[0].kind == 'comp' and c[0].children and c[0].children[0].dtype == 'AN' and c[0].children[0].codes:
        tests.append(('01-1', c[0].children[0].codes))
    if c[0].kind == 'comp' and c[0].children and c[0].children[0].dtype == 'ID' and c[0].children[0].codes:
        tests.append(('01-1', c[0].children[0].codes))
    if seg.id == 'HL' and len(c) > 2 and c[2].kind == 'ele' and c[2].codes:
        tests.append(('03', c[2].codes))
    return tests


def could_match(segnode, seg_id, getval):
    if segnode.id != seg_id:
        return False
    # pyx12 evaluates the tests as an if/elif chain: the first failing test rejects, later ones are only looked
    # at when the earlier ones passed
    for ref, cds in qual_tests(segnode):
        if getval(ref) not in cds:
            return False
    return True


def scan_groups(cur):
    """Ordered groups of candidate segment nodes (same loop, same position) a sequential parser considers after
    having matched `cur`: the current loop from the current position, child loops through their entry segments,
    then each enclosing loop from the position of the loop just left."""
    groups = []
    loop = cur.parent
    pos = cur.pos
    while True:
        bypos = {}
        for c in loop.children:
            if c.pos >= pos:
                bypos.setdefault(c.pos, [])
                if c.kind == 'seg':
                    bypos[c.pos].append(c)
                else:
                    bypos[c.pos] += first_seg_nodes(c)
        for p in sorted(bypos):
            groups.append(bypos[p])
        if loop.kind == 'root':
            break
        pos = loop.pos
        loop = loop.parent
    return groups


def transaction_entries():
    """index entries that select a transaction map (not the bare control maps), first entry per (file)"""
    out = []
    for e in index():
        if e['vriic']:
            out.append(e)
    return out


def map_files():
    seen = []
    for e in index():
        if e['file'] not in seen:
            seen.append(e['file'])
    return seen
